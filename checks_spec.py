"""Per-property job tables for ./check. One entry per claimed property."""

Q, T = "quick", "thorough"


def rapid(test, cq, ct, sq=1, st=16, **kw):
    d = dict(test=test, kind="rapid", checks={Q: cq, T: ct}, shards={Q: sq, T: st})
    d.update(kw)
    return d


def plain(test, sq=1, st=16, **kw):
    d = dict(test=test, kind="plain", shards={Q: sq, T: st})
    d.update(kw)
    return d


def fuzz(test, secs_t=90, **kw):
    d = dict(test=test, kind="fuzz", tiers=(T,), fuzztime={Q: 5, T: secs_t}, shards={Q: 1, T: 1})
    d.update(kw)
    return d


SPECS = {}

SPECS["C20"] = dict(
    title="ring buffer is a FIFO for every operation sequence",
    level="exploration",
    technique="model-based testing against a slice FIFO: exhaustive operation-sequence enumeration to a depth bound + rapid random sequences",
    level_text=("Every operation sequence up to a depth bound from ~210 initial layouts is executed against the real RingBuffer and "
                "compared in full with a slice model after every step (bounded-exhaustive), plus random long sequences across the "
                "growth regimes. This is search, not proof: sequences longer than the bound are only sampled."),
    level_note=("Trusts the slice model and the verif-tag hooks VerifLayout/VerifClone (plain field reads/copies). "
                "Element type int; Discard(n<0) is outside the domain."),
    design_ref="5/C20",
    rule=("TestC20Exhaustive: every operation sequence up to the depth bound over a 12-symbol alphabet "
          "(Push, Pop, Peek+mutate, Discard{1,2,len-1,len,len+1}, Clear, ForEach/ForEachReverse with in-place mutation and early stop, Push x3) "
          "from every initial layout {size 0,8,9,16} x {every head offset} x {fill 0,1,cap-2,cap-1}, deeper from empty, and from "
          "near-full 512/1024/1127-slot layouts (doubling and +10% growth); each prefix-tree node is one evaluation, compared in full "
          "with a slice model (Len/IsEmpty/IsFull/Peek/both iterators/slot zeroing). TestC20Random: rapid sequences of up to 400 ops "
          "incl. bulk pushes up to 2300. Non-trivial = the sequence operated on a wrapped layout (head>tail), crossed a growth step, "
          "or a Discard ended exactly at the array end; enumerated nodes are distinct by construction, random cases by descriptor hash."),
    jobs=[
        plain("TestC20GrowEveryOffset", sq=4, st=16),
        plain("TestC20Exhaustive", sq=6, st=16,
              env={"C20_DEPTH": {Q: 5, T: 6}, "C20_DEPTH_EMPTY": {Q: 6, T: 8}, "C20_DEPTH_BIG": {Q: 3, T: 4}},
              timeout={Q: 600, T: 3000}),
        rapid("TestC20Random", 1500, 40000, sq=2, st=16),
        fuzz("FuzzC20Random", 60),
    ],
    floors={"wrapped": (0.2, "rand_cases"), "grew_10pct": (0.05, "rand_cases")},
    assumptions=["Discard is only called with n >= 0 (its callers pass counts); negative n is outside the documented domain",
                 "element type int stands for every T (the code is generic and never inspects T)"],
)

SPECS["C01"] = dict(
    floors={"retransmission": 0.5, "duplicate_delivered": 0.2, "read_smaller_than_message": 0.1},
    title="reliable ordered stream: reader sees a prefix of what was written",
    level="exploration",
    technique="rapid-generated configurations x fault scripts x app scripts; reference model = log of accepted writes, compared at every read",
    level_text="TODO",
    level_note="TODO",
    design_ref="5/C01",
    rule="TODO",
    jobs=[
        rapid("TestC01Core", 1200, 30000, sq=4, st=16),
        rapid("TestC01Session", 400, 12000, sq=6, st=16),
        rapid("TestC01FreeRun", 120, 4000, sq=3, st=12),
        dict(rapid("TestC01FreeRun", 60, 1500, sq=1, st=6), label="TestC01FreeRun-race", race=True, tiers=(T,)),
        rapid("TestC01RealUDP", 40, 1500, sq=2, st=8),
        rapid("TestC01StreamMtuRaise", 400, 12000, sq=2, st=8),
    ],
)

SPECS["C02"] = dict(
    title="eventual delivery: a healed network always drains the backlog",
    level="fault_enumeration",
    technique="bounded liveness in virtual time: exhaustive fate assignment to the first K datagrams + rapid-sampled long fault scripts with outages, then a fair network",
    level_text="TODO",
    level_note="TODO",
    design_ref="5/C02",
    rule="TODO",
    jobs=[
        plain("TestC02RegressAckedHeadWedge", sq=1, st=1),
        plain("TestC02CoreExhaustive", sq=4, st=16, env={"C02_K": {Q: 6, T: 8}, "C02_NCFG": {Q: 6, T: 12}}),
        rapid("TestC02CoreSampled", 500, 15000, sq=4, st=16),
        rapid("TestC02Session", 150, 3000, sq=4, st=16),
    ],
)

SPECS["C04"] = dict(
    title="window discipline: bounded buffering, truthful window, backpressure",
    level="exploration",
    technique="state invariants after every API call / datagram over rapid-generated traffic, plus a generated hostile peer; wire-level admission model",
    level_text="TODO",
    level_note="TODO",
    design_ref="5/C04",
    rule="TODO",
    jobs=[
        plain("TestC04RegressAckOnlyAdmission", sq=1, st=1),
        rapid("TestC04Core", 500, 15000, sq=4, st=16),
        rapid("TestC04Hostile", 6000, 300000, sq=2, st=16),
        plain("TestC04KnownCwndReopen", sq=1, st=1),
        rapid("TestC04SessionWrite", 250, 8000, sq=2, st=16),
        rapid("TestC04SessionWindow", 200, 6000, sq=4, st=16),
    ],
)

SPECS["C18"] = dict(
    title="no retransmission on a clean path; RTO within bounds",
    level="exploration",
    technique="rapid-generated clean-path configurations (wire count of every sn + SNMP deltas) and hostile ACK/timestamp sequences (RTO bound after every Input)",
    level_text="TODO",
    level_note="TODO",
    design_ref="5/C18",
    rule="TODO",
    jobs=[
        rapid("TestC18CleanPath", 2500, 60000, sq=2, st=16),
        rapid("TestC18RTOBounds", 5000, 200000, sq=2, st=16),
        rapid("TestC18SessionRTO", 250, 8000, sq=2, st=16),
    ],
)

SPECS["C10"] = dict(
    title="no datagram exceeds the MTU; accepted MTUs are safe",
    level="exploration",
    technique="rapid-generated MTU values (any int) set before/during generated traffic; size oracle at the output callback / PacketConn boundary, transfer must still complete",
    level_text="TODO",
    level_note="TODO",
    design_ref="5/C10",
    rule="TODO",
    jobs=[
        plain("TestC10RegressRawSetMtu", sq=1, st=1),
        rapid("TestC10Core", 1500, 40000, sq=4, st=16),
        rapid("TestC10Session", 300, 9000, sq=4, st=16),
        plain("TestC10KnownParityAfterShrink", sq=1, st=1),
    ],
)

SPECS["C12"] = dict(
    title="behaviour invariant under sequence-number and clock wrap-around",
    level="exploration",
    technique="metamorphic testing: each generated run is executed unshifted and with drawn sn/clock offsets; normalised datagram traces must be identical",
    level_text="TODO",
    level_note="TODO",
    design_ref="5/C12",
    rule="TODO",
    jobs=[
        rapid("TestC12Core", 800, 25000, sq=4, st=16),
        plain("TestC12FEC", sq=1, st=2),
        rapid("TestC07Sampled", 1500, 30000, sq=2, st=8),  # every position incl. the wrap, fresh and re-tuned decoders
        rapid("TestC12SessionFECWrap", 250, 8000, sq=3, st=12),
    ],
)

SPECS["C09"] = dict(
    floors={"retransmission_on_wire": (0.5, "fec_on"), "rs_parity_recomputed": (0.5, "fec_on")},
    title="datagrams follow the documented frame layout; nonces never repeat",
    level="exploration",
    technique="independent wire decoder (std-lib CFB/CRC32/GCM, own RS re-encode, own segment parser) observing every datagram of rapid-generated session histories",
    level_text="TODO",
    level_note="TODO",
    design_ref="5/C09",
    rule="TODO",
    jobs=[
        rapid("TestC09Session", 350, 10000, sq=6, st=16),
        rapid("TestC09EncoderIDs", 3000, 100000, sq=1, st=8),
        plain("TestC09Entropy", sq=1, st=1, env={"C09_ENTROPY_DRAWS": {Q: 1 << 18, T: 1 << 22}}),
    ],
)

SPECS["C13"] = dict(
    title="blocked Read/Write/Accept always wake: data, deadline, close, error",
    level="exploration",
    technique="rapid state machines (t.Repeat) over real sessions and listeners in a synctest bubble; reason-to-return model checked at every quiescent point, exact virtual-time deadline oracle",
    level_text="TODO",
    level_note="TODO",
    design_ref="5/C13",
    rule="TODO",
    jobs=[
        plain("TestC13RegressSecondReader", sq=1, st=1),
        plain("TestC13RegressDeadlineWhileBlocked", sq=1, st=1),
        rapid("TestC13Session", 700, 20000, sq=4, st=16, steps=60),
        rapid("TestC13Accept", 500, 10000, sq=2, st=8, steps=40),
        plain("TestC13KnownDeadlineOneWaiter", sq=1, st=1),
        plain("TestC13KnownAcceptDeadline", sq=1, st=1),
    ],
)

SPECS["C08"] = dict(
    title="ciphers round-trip every length and equal textbook CFB",
    level="exploration",
    technique="exhaustive grid (cipher x length 0..1500 x aliasing x direction x content) with differential oracle against crypto/cipher CFB / salsa20 / pbkdf2-xor / GCM, plus concurrent callers",
    level_text="TODO",
    level_note="TODO",
    design_ref="5/C08",
    rule="TODO",
    exhaustive_all=True,
    jobs=[
        plain("TestC08Grid", sq=4, st=16, env={"C08_CONTENTS": {Q: 3, T: 8}, "C08_KEYS": {Q: 1, T: 12}}),
        plain("TestC08AEAD", sq=1, st=1),
        plain("TestC08Concurrent", sq=1, st=4, env={"C08_ROUNDS": {Q: 60, T: 2000}}),
    ],
)

SPECS["C07"] = dict(
    title="FEC reconstructs exactly the missing packets from any k of n",
    level="exploration",
    technique="exhaustive arrival orders of every subset for small groups + rapid-sampled ratios up to 255 with duplicates, interleaved neighbours and wrap positions; reference = encoder inputs",
    level_text="TODO",
    level_note="TODO",
    design_ref="5/C07",
    rule="TODO",
    jobs=[
        plain("TestC07Exhaustive", sq=4, st=16, env={"C07_MAXN": {Q: 5, T: 6}}),
        rapid("TestC07Sampled", 1500, 40000, sq=2, st=16),
        plain("TestC07KnownFresh", sq=1, st=1),
        fuzz("FuzzC07Sampled", 90),
    ],
)

SPECS["C16"] = dict(
    title="FEC ratio mismatch is harmless and the decoder converges to the peer's",
    level="exploration",
    technique="rapid-generated (sender ratio, receiver ratio, start id, pre-convergence loss/dup/reorder) against the real decoder; oracles: emitted packets are originals, convergence bound, recovery after convergence, stability with equal ratios",
    level_text="TODO",
    level_note="TODO",
    design_ref="5/C16",
    rule="TODO",
    jobs=[
        rapid("TestC16Convergence", 1500, 40000, sq=3, st=16),
        rapid("TestC16Stability", 1500, 40000, sq=2, st=16),
        rapid("TestC16SessionLazyDecoder", 60, 2000, sq=2, st=8),
        plain("TestC16KnownNonOriginal", sq=1, st=1),
        plain("TestC16KnownWrapDelay", sq=1, st=1),
    ],
)

SPECS["C17"] = dict(
    title="timed scheduler: every task runs exactly once, never early",
    level="exploration",
    technique="generated concurrent submission programs against the real scheduler in real time under both timer-channel semantics; per-task run counter and timestamps as oracle",
    level_text="TODO",
    level_note="TODO",
    design_ref="5/C17",
    rule="TODO",
    width={Q: 2, T: 4},
    jobs=[
        plain("TestC17Sched", sq=1, st=2, label="sched-asynctimerchan0", godebug="asynctimerchan=0", env={"C17_SECONDS": {Q: 12, T: 240}}, timeout={Q: 300, T: 1200}),
        plain("TestC17Sched", sq=1, st=2, label="sched-asynctimerchan1", godebug="asynctimerchan=1", env={"C17_SECONDS": {Q: 12, T: 240}}, timeout={Q: 300, T: 1200}),
    ],
)

SPECS["C05"] = dict(
    title="no datagram can crash or bloat the process",
    level="exploration",
    technique="rapid structure-aware mutation of genuine and forged datagrams fed to the raw core, the FEC decoder, dialled sessions and listeners (before and after the integrity gate) amid valid traffic; oracle: no panic + occupancy limits",
    level_text="TODO",
    level_note="TODO",
    design_ref="5/C05",
    rule="TODO",
    jobs=[
        plain("TestC05RegressOversizePush", sq=1, st=1),
        rapid("TestC05Core", 4000, 150000, sq=2, st=16),
        rapid("TestC05FECDecoder", 2000, 60000, sq=1, st=8),
        rapid("TestC05Session", 350, 10000, sq=4, st=16),
        fuzz("FuzzC05Core", 120),
        fuzz("FuzzC05FECDecoder", 60),
    ],
)

SPECS["C06"] = dict(
    title="packets failing the integrity check have no effect at all",
    level="exploration",
    technique="rapid-generated guaranteed-detectable corruptions (AEAD any change; CRC bursts <=32 bits; stored-CRC changes; verified ciphertext corruption; short/random datagrams) of captured genuine datagrams injected synchronously at quiescent points of generated histories; full-state digest, counter, emission and wake-up oracles",
    level_text="TODO",
    level_note="TODO",
    design_ref="5/C06",
    rule="TODO",
    jobs=[
        rapid("TestC06Session", 350, 10000, sq=4, st=16),
    ],
)

SPECS["C15"] = dict(
    floors={"closed_mid_transfer": 0.2, "closed_with_unaccepted_sessions": 0.05},
    title="Close releases goroutines and callbacks; pooled buffers have one owner",
    level="exploration",
    technique="rapid-generated close scripts (point in history x permutation of Close calls x gaps x never-accepted peers) in a synctest bubble with a goroutine census and scheduler-callback census after 10 virtual minutes; buffer-pool sanitizer (quarantine + poison, LIFO reuse) under generated lossy FEC traffic with content and wire oracles",
    level_text="TODO",
    level_note="TODO",
    design_ref="5/C15",
    rule="TODO",
    jobs=[
        plain("TestC15RegressUnacceptedSessions", sq=1, st=1),
        rapid("TestC15Close", 350, 10000, sq=4, st=16),
        rapid("TestC15Pool", 250, 8000, sq=4, st=16),
        rapid("TestC15PoolAutoTune", 600, 20000, sq=2, st=8),
        rapid("TestC15RealUDP", 40, 1500, sq=2, st=8),
        rapid("TestC15BacklogBoundary", 60, 600, sq=1, st=4),
    ],
)

SPECS["C19"] = dict(
    floors={"oob_inside_fec_group": 0.2, "oob_lost": 0.2, "oversize_refused": 0.3},
    title="out-of-band messages: intact or absent, never disturb the stream",
    level="exploration",
    technique="rapid-generated OOB call patterns (boundary lengths, bursts beyond the queue depth, handler set/replaced/cleared) interleaved with generated lossy stream traffic; tagged-payload oracle at the handlers, independent wire decoder (ids, RS parity, MTU) on every datagram, stream completion bound",
    level_text="TODO",
    level_note="TODO",
    design_ref="5/C19",
    rule="TODO",
    jobs=[
        rapid("TestC19OOB", 300, 9000, sq=4, st=16),
        rapid("TestC19ClosedSession", 150, 5000, sq=2, st=8),
        rapid("TestC19OneSidedFEC", 150, 5000, sq=2, st=8),
        plain("TestC19HandlerReentrancy", sq=1, st=1),
        plain("TestC19NoFEC", sq=1, st=1),
        rapid("TestC19ForeignConvOOB", 400, 12000, sq=2, st=8),
    ],
)

SPECS["C11"] = dict(
    floors={"ge3_concurrent_streams": (0.3, "isolation_cases"), "foreign_datagram_past_integrity": (0.3, "isolation_cases")},
    title="sessions on one socket are isolated; one Accept per new peer",
    level="exploration",
    technique="rapid-generated multi-peer histories (1-8 clients, shared IPs, per-peer fault scripts, reconnects with a new conversation, late accept) with address/conv-keyed payload streams and injected foreign datagrams (replays from strangers, forged conv from the right address, third-address datagrams at dialled sessions); accept-count, content, digest and stall oracles",
    level_text="TODO",
    level_note="TODO",
    design_ref="5/C11",
    rule="TODO",
    jobs=[
        rapid("TestC11Isolation", 250, 8000, sq=4, st=16),
        plain("TestC11KnownStaleFEC", sq=1, st=1),
        rapid("TestC11Backlog", 10, 150, sq=2, st=8),
        rapid("TestC11Restart", 150, 4000, sq=2, st=8),
        rapid("TestC11RealUDP", 40, 1500, sq=2, st=8),
    ],
)

SPECS["C03"] = dict(
    floors={"zero_window_advertised": 0.3, "control_datagram_dropped": 0.3, "window_probe_sent": 0.2},
    title="a stalled reader throttles the sender and transfer resumes afterwards",
    level="fault_enumeration",
    technique="rapid-generated reader pause schedules x receive windows x time windows in which every WASK/WINS/ack-only datagram is dropped (classified by the independent decoder) x ordinary loss; window-discipline invariants at every step, bounded-liveness completion in virtual time",
    level_text="TODO",
    level_note="TODO",
    design_ref="5/C03",
    rule="TODO",
    jobs=[
        rapid("TestC03Core", 600, 8000, sq=4, st=16),
        rapid("TestC03Session", 120, 1500, sq=4, st=16),
        rapid("TestC03WindowShrunk", 300, 6000, sq=4, st=16),
    ],
)

SPECS["C14"] = dict(
    title="concurrent use of sessions and listeners is free of data races",
    level="exploration",
    technique="generated concurrent API programs (seeded) over real sessions/listener in real time with the genuine scheduler, built with -race; the Go race detector is the oracle, co-scheduled method-pair coverage is measured",
    level_text="TODO",
    level_note="TODO",
    design_ref="5/C14",
    rule="TODO",
    width={Q: 2, T: 8},
    jobs=[
        plain("TestC14Race", sq=2, st=8, race=True, env={"C14_SECONDS": {Q: 20, T: 600}, "GORACE": "halt_on_error=0"}, timeout={Q: 600, T: 3000}),
    ],
)

from spec_texts import TEXTS  # noqa: E402
for _pid, _t in TEXTS.items():
    if _pid in SPECS:
        for _k, _v in _t.items():
            if _v is not None:
                SPECS[_pid][_k] = _v

NOTES = ("Every check is `./check <id> quick|thorough`; it rebuilds the harness against /repo's working tree with -tags verif, "
         "runs rapid / enumeration jobs in parallel shards seeded from VERIF_SEED, writes evidence/<id>.json, prints "
         "KNOWN-FINDING lines for entries of known_findings.txt that still reproduce, and exits 1 with a VIOLATION line otherwise. "
         "Exit 2 = inconclusive (build failure / time-out).")

_ALL = ["C%02d" % i for i in range(1, 21)]
_PENDING = "check not built yet in this round (planned, see DESIGN.md section 5); not claimed until its quick tier is green and has caught its mutants"
NOT_APPLICABLE = [dict(property_id=p, reason=_PENDING) for p in _ALL if p not in SPECS]
