#!/bin/bash
# Builds the harness once, offline, so that later checks start warm.
set -e
cd "$(dirname "$0")"
export GOFLAGS=-mod=mod GOPROXY=off GOSUMDB=off GOTOOLCHAIN=local
mkdir -p .build .run evidence replays
export GOCACHE="$PWD/.build/gocache"
cat /repo/go.sum harness/extra.sum > .build/go.setup.sum
sed 's#=> /repo#=> /repo#' harness/go.mod > .build/go.setup.mod
(cd harness && go1.26.8 test -c -tags verif -modfile=../.build/go.setup.mod -o ../.build/setup.test ./props)
echo "setup ok"
