#!/bin/bash
# tools/seeded.sh <Cxx> <out-dir of the sub-agent> [name] [tier]
# Confirms a sub-agent's seeded change in a fresh scratch worktree (demo passes without / fails with the change,
# library builds, upstream suite passes with it), runs the property's check against it, and files it under seeded/<name>/.
set -u
pid=$1; out=$2; name=${3:-$pid-1}; tier=${4:-quick}
wt=/tmp/sv-$name-$$
dst=/verif/seeded/$name
export GOPROXY=off GOFLAGS=-mod=mod
[ -s "$out/patch.diff" ] || { echo "no patch.diff in $out"; exit 3; }
git -C /repo worktree add -q --detach "$wt" HEAD || exit 3
trap 'git -C /repo worktree remove --force "$wt" 2>/dev/null; rm -rf "$wt"' EXIT
demos=$(ls "$out"/*_test.go 2>/dev/null)
[ -n "$demos" ] || { echo "no demo test file in $out"; exit 3; }
cp $demos "$wt"/
tests=$(grep -ho "^func Test[A-Za-z0-9_]*" $demos | sed 's/func //' | paste -sd'|')
cd "$wt"
echo "== demo without the change ($tests)"
go test ${DEMO_FLAGS:-} -vet=off -count=1 -timeout 10m -run "^($tests)\$" . > /tmp/sv-$name-without.log 2>&1; r_without=$?
tail -3 /tmp/sv-$name-without.log
git apply "$out/patch.diff" || { echo "patch does not apply"; exit 3; }
go build ./... || { echo "does not build"; exit 3; }
echo "== demo with the change"
go test ${DEMO_FLAGS:-} -vet=off -count=1 -timeout 10m -run "^($tests)\$" . > /tmp/sv-$name-with.log 2>&1; r_with=$?
tail -5 /tmp/sv-$name-with.log
rm -f $(for d in $demos; do echo "$wt/$(basename $d)"; done)
r_suite=skipped
if [ "${SKIP_SUITE:-}" = "" ]; then
  echo "== upstream suite with the change"
  # private network namespace: the suite binds fixed UDP ports, other runs may be using them
  if unshare -rn true 2>/dev/null; then
    unshare -rn sh -c 'ip link set lo up; go test -vet=off -count=1 -timeout 25m ./...' > /tmp/sv-$name-suite.log 2>&1; r_suite=$?
  else
    go test -vet=off -count=1 -timeout 25m ./... > /tmp/sv-$name-suite.log 2>&1; r_suite=$?
  fi
  tail -3 /tmp/sv-$name-suite.log
fi
echo "== ./check $pid $tier against the change"
cd /verif
VERIF_REPO=$wt VERIF_RUNTAG=-sv-$name ./check "$pid" "$tier" > /tmp/sv-$name-check.log 2>&1; r_check=$?
grep -E "VIOLATION|KNOWN-FINDING|INCONCLUSIVE|^\[$pid\]" /tmp/sv-$name-check.log | head -6
caught_by=$(grep -E "^--- (inconclusive )?Test|^--- FAIL: Test" /tmp/sv-$name-check.log | sed -E 's/^--- (FAIL: )?//' | awk '{print $1}' | sort -u | paste -sd, )
mkdir -p "$dst"
cp "$out/patch.diff" "$dst/patch.diff"
cp $demos "$dst"/
[ -f "$out/notes.md" ] && cp "$out/notes.md" "$dst/agent_notes.md"
python3 - "$dst/meta.json" <<PY
import json,sys
json.dump({
 "name": "$name", "property": "$pid",
 "demo_tests": "$tests",
 "confirmed": {"demo_passes_without_change": $r_without == 0, "demo_fails_with_change": $r_with != 0,
               "builds": True, "upstream_suite_with_change": ("pass" if "$r_suite" == "0" else ("skipped" if "$r_suite" == "skipped" else "FAIL"))},
 "check": {"command": "VERIF_REPO=<scratch worktree with the patch> ./check $pid $tier", "exit_code": $r_check, "caught": $r_check == 1, "failing_tests": "$caught_by"},
 "what_it_needs": "see agent_notes.md",
}, open(sys.argv[1], "w"), indent=1)
PY
echo "SEEDED $name: without=$r_without with=$r_with suite=$r_suite check=$r_check $( [ $r_check = 1 ] && echo CAUGHT || echo MISSED )"
rm -rf "/verif/.run/$pid-$tier-sv-$name" /verif/.build/*-sv-$name*
