#!/bin/bash
# tools/mutant.sh <name> <Cxx> <tier> <patch-file | -e 'sed expr' file>...
# Applies a mutation to a scratch worktree of /repo under /tmp, checks that it
# builds, runs ./check against it (VERIF_REPO), prints the verdict, removes it.
set -u
name=$1; pid=$2; tier=$3; shift 3
dir=/tmp/mut-$name-$$
git -C /repo worktree add -q --detach "$dir" HEAD || exit 3
cleanup() { git -C /repo worktree remove --force "$dir" 2>/dev/null; rm -rf "$dir"; }
trap cleanup EXIT
if [ "$1" = "-e" ]; then
  while [ $# -ge 3 ] && [ "$1" = "-e" ]; do
    before=$(md5sum "$dir/$3"); sed -i -E "$2" "$dir/$3"; after=$(md5sum "$dir/$3")
    [ "$before" = "$after" ] && { echo "MUTANT $name: sed changed nothing in $3"; exit 3; }
    shift 3
  done
else
  git -C "$dir" apply "$1" || { echo "MUTANT $name: patch does not apply"; exit 3; }
fi
(cd "$dir" && GOFLAGS=-mod=mod GOPROXY=off go build ./... ) || { echo "MUTANT $name: does not build"; exit 3; }
cd /verif
VERIF_REPO=$dir VERIF_RUNTAG=-mut-$name ./check "$pid" "$tier" > "/tmp/mut-$name-$$.out" 2>&1
rc=$?
grep -E "VIOLATION|KNOWN-FINDING|INCONCLUSIVE|^\[$pid\]" "/tmp/mut-$name-$$.out" | head -5
echo "MUTANT $name $pid $tier -> rc=$rc $( [ $rc = 1 ] && echo CAUGHT || echo MISSED )"
[ "${KEEP_OUT:-}" ] || rm -f "/tmp/mut-$name-$$.out"
rm -rf "/verif/.run/$pid-$tier-mut-$name" /verif/.build/*-mut-$name*
exit 0
