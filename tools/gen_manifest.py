#!/usr/bin/env python3
"""Regenerates /verif/MANIFEST.json from checks_spec.py and not_applicable.json."""
import json, os, subprocess, sys
V = os.path.dirname(os.path.dirname(os.path.abspath(__file__)))
sys.path.insert(0, V)
from checks_spec import SPECS, NOT_APPLICABLE, NOTES

hooks = subprocess.run(["git", "-C", "/repo", "log", "--format=%H %s", "--grep=^verif:"], capture_output=True, text=True).stdout.split("\n")
hook_commits = [l.split()[0] for l in hooks if l.strip()]
checks = []
for pid in sorted(SPECS):
    s = SPECS[pid]
    checks.append(dict(
        property_id=pid,
        quick_cmd=f"./check {pid} quick",
        thorough_cmd=f"./check {pid} thorough",
        evidence_file=f"/verif/evidence/{pid}.json",
        replay_cmd_template=f"./check {pid} --replay {{path}}",
        engine=s.get("engine", "harness"),
        level_claimed=dict(category=s["level"], text=s["level_text"], design_ref=s.get("design_ref", "")),
        level_note=s["level_note"],
        technique=s["technique"],
    ))
m = dict(
    version=1,
    setup_cmd="cd /verif && ./setup.sh",
    hooks=dict(
        guard="verif",
        enable="go build tag: checks compile /repo with `-tags verif` (GOTOOLCHAIN=local go1.26.8, external module /verif/harness with replace => /repo)",
        baseline_off_cmd="cd /repo && GOPROXY=off go test -json -vet=off -count=1 -timeout 25m ./...",
        source_commits=hook_commits,
        add_only=True,
    ),
    engines=[
        dict(name="harness", path="/verif/harness", serves_properties=sorted(SPECS),
             kind_free_text="Go module (rapid v1.3.0 property tests, bounded-exhaustive enumerations, synctest virtual-time simulations, native fuzz targets) driven by the python driver /verif/check"),
    ],
    checks=checks,
    notes=NOTES,
    not_applicable=NOT_APPLICABLE,
)
json.dump(m, open(os.path.join(V, "MANIFEST.json"), "w"), indent=1)
print("wrote MANIFEST.json with", len(checks), "checks;", len(NOT_APPLICABLE), "not claimed")
