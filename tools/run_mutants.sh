#!/bin/bash
# tools/run_mutants.sh <property|all> [tier] [parallel]   runs the hand-written mutants of tools/mutants.txt
prop=${1:-all}; tier=${2:-quick}; par=${3:-4}
cd /verif
while IFS= read -r line; do
  mapfile -t parts < <(echo "$line" | awk -F' @@ ' '{for(i=1;i<=NF;i++) print $i}')
  name=${parts[0]}; p=${parts[1]}
  [ "$prop" != all ] && [ "$prop" != "$p" ] && continue
  args=()
  for ((i=2; i<${#parts[@]}; i+=2)); do args+=(-e "${parts[i+1]}" "${parts[i]}"); done
  echo "$name $p" >&2
  ( tools/mutant.sh "$name" "$p" "$tier" "${args[@]}" 2>&1 | grep -E "^MUTANT" ) &
  while [ $(jobs -r | wc -l) -ge $par ]; do sleep 0.5; done
done < <(grep -v '^#' tools/mutants.txt | grep -v '^$')
wait
