package props

// Shared FEC codec harness for C07, C12 (FEC ids) and C16: the encoder's
// inputs are the reference; everything decode() returns is compared with them.

import (
	"bytes"
	"encoding/binary"
	"fmt"

	kcp "github.com/xtaci/kcp-go/v5"
	"verif/harness/wire"
)

type fecPkt struct {
	Seq    uint32
	Parity bool
	Raw    []byte // seqid | type | (size | payload  or  parity bytes)
	Body   []byte // data packets: size | payload
}

// fecStream produces the packets of a sender with ratio d/p.
type fecStream struct {
	d, p int
	enc  *kcp.VerifFECEncoder
	conv uint32
	sn   uint32
	// bodies of data packets by sequence id (the reference)
	bodies map[uint32][]byte
}

func newFECStream(d, p int, start uint32, conv uint32) *fecStream {
	e := kcp.VerifNewFECEncoder(d, p, 0)
	e.SetNext(start)
	return &fecStream{d: d, p: p, enc: e, conv: conv, bodies: map[uint32][]byte{}}
}

// kcpPayload builds a well-formed KCP datagram payload of roughly size bytes
// (one PUSH segment) - RS is linear, so wrongly "recovered" packets are
// combinations of genuine ones and can look like valid segments.
func (s *fecStream) kcpPayload(size int) []byte {
	if size < wire.SegHeader {
		// smaller than a header: raw bytes (exercises tiny payload sizes)
		b := make([]byte, size)
		for i := range b {
			b[i] = byte(0xC0 + i + int(s.sn))
		}
		s.sn++
		return b
	}
	sg := wire.Segment{Conv: s.conv, Cmd: wire.CmdPush, Wnd: 128, Ts: 1000 + s.sn, Sn: s.sn, Una: 7, Data: make([]byte, size-wire.SegHeader)}
	for i := range sg.Data {
		sg.Data[i] = byte(int(s.sn)*7 + i)
	}
	s.sn++
	return sg.Append(nil)
}

// next encodes one data packet of the given payload size; skipParity makes
// the encoder treat the data as non-continuous (no parity for a group that
// completes now).
func (s *fecStream) next(size int, skipParity bool) []fecPkt {
	payload := s.kcpPayload(size)
	b := make([]byte, 8+len(payload), 1500)
	copy(b[8:], payload)
	rto := uint32(1 << 30)
	if skipParity {
		rto = 0
	}
	ps := s.enc.Encode(b, rto)
	seq := binary.LittleEndian.Uint32(b)
	out := []fecPkt{{Seq: seq, Raw: append([]byte(nil), b...), Body: append([]byte(nil), b[6:]...)}}
	s.bodies[seq] = out[0].Body
	for _, p := range ps {
		out = append(out, fecPkt{Seq: binary.LittleEndian.Uint32(p), Parity: true, Raw: append([]byte(nil), p...)})
	}
	return out
}

// group produces one complete group (d data + p parity unless skipped).
func (s *fecStream) group(sizes []int, skipParity bool) []fecPkt {
	var out []fecPkt
	for i := 0; i < s.d; i++ {
		out = append(out, s.next(sizes[i%len(sizes)], skipParity && i == s.d-1)...)
	}
	return out
}

// checkRecovered validates one buffer returned by decode against the
// reference: it must be an original data packet of one of the candidate
// sequence ids, with its exact length and zero padding behind it.
func checkRecovered(r []byte, bodies map[uint32][]byte, candidates []uint32, prefer func(uint32) bool) (uint32, error) {
	if len(r) < 2 {
		return 0, fmt.Errorf("recovered buffer of %d bytes", len(r))
	}
	sz := int(binary.LittleEndian.Uint16(r))
	// identical packets (e.g. empty payloads) are told apart by preferring the
	// ids that are still missing
	ordered := make([]uint32, 0, len(candidates))
	for _, id := range candidates {
		if prefer != nil && prefer(id) {
			ordered = append(ordered, id)
		}
	}
	for _, id := range candidates {
		if prefer == nil || !prefer(id) {
			ordered = append(ordered, id)
		}
	}
	for _, id := range ordered {
		b, ok := bodies[id]
		if !ok || len(b) != sz || len(r) < sz {
			continue
		}
		if bytes.Equal(r[:sz], b) {
			for i := sz; i < len(r); i++ {
				if r[i] != 0 {
					return id, fmt.Errorf("recovered packet %d: byte %d behind its %d-byte length is %#x, not zero padding", id, i, sz, r[i])
				}
			}
			return id, nil
		}
	}
	return 0, fmt.Errorf("decoder emitted %d bytes (size field %d) that are not an original data packet of this group", len(r), sz)
}
