package props

// C04: window discipline. State invariants after every API call and every
// processed datagram; wire-level admission rules checked against a model of
// what the sender can know (the windows actually delivered to it).

import (
	"fmt"
	"net"
	"sort"
	"testing"

	kcp "github.com/xtaci/kcp-go/v5"
	"pgregory.net/rapid"
	"verif/harness/hx"
	"verif/harness/sim"
	"verif/harness/wire"
)

func sdiff(a, b uint32) int32 { return int32(a - b) }

// windowInvariants checks the occupancy limits of one core.
func windowInvariants(k *kcp.KCP) error {
	st := k.VerifState(true)
	if st.RcvQueue > int(st.RcvWnd) {
		return fmt.Errorf("delivery queue holds %d segments, receive window is %d", st.RcvQueue, st.RcvWnd)
	}
	if st.RcvBuf > int(st.RcvWnd) {
		return fmt.Errorf("out-of-order buffer holds %d segments, receive window is %d", st.RcvBuf, st.RcvWnd)
	}
	seen := map[uint32]bool{}
	for _, sn := range st.RcvBufSn {
		if d := sdiff(sn, st.RcvNxt); d < 0 || d >= int32(st.RcvWnd) {
			return fmt.Errorf("out-of-order buffer holds sn %d outside [rcv_nxt=%d, +%d)", sn, st.RcvNxt, st.RcvWnd)
		}
		if seen[sn] {
			return fmt.Errorf("out-of-order buffer holds sn %d twice", sn)
		}
		seen[sn] = true
	}
	for i, sn := range st.RcvQueueSn {
		if want := st.RcvNxt - uint32(len(st.RcvQueueSn)-i); sn != want {
			return fmt.Errorf("delivery queue slot %d holds sn %d, want %d (in-order run ending at rcv_nxt)", i, sn, want)
		}
	}
	if d := sdiff(st.SndNxt, st.SndUna); d < 0 || d > int32(st.SndWnd) {
		return fmt.Errorf("%d segments outstanding (snd_una=%d snd_nxt=%d), send window is %d", d, st.SndUna, st.SndNxt, st.SndWnd)
	}
	if st.SndBuf > int(st.SndWnd) {
		return fmt.Errorf("send buffer holds %d segments, send window is %d", st.SndBuf, st.SndWnd)
	}
	return nil
}

// senderModel tracks, from the wire alone, what a sender may do.
type senderModel struct {
	rmtWnd     uint32          // last window delivered to this sender in a regular datagram
	seen       map[uint32]bool // sn ever emitted
	afterLoss  bool            // a timeout loss happened (nc=0) and its oldest segment is not yet acknowledged
	lossOldest uint32
	lostBase   uint64
	fastBase   uint64
	fastSince  bool   // a fast/early retransmit happened since that loss
	prevCwnd   uint32 // congestion window after this endpoint's previous step
	// whether the current step retransmitted a segment by timeout, judged
	// without the library's own loss counter: when a retransmitted segment goes
	// on the wire its fast-ack counter has just been set by the branch that
	// chose it - to the "already fast-retransmitted" marker by the fast and
	// early branches, to 0 by the timeout branch.
	rtoPending bool
}

func newSenderModel() *senderModel { return &senderModel{rmtWnd: 32, seen: map[uint32]bool{}} }

// deliver mirrors Input's sequential processing for window bookkeeping.
func (m *senderModel) deliver(conv uint32, raw []byte) {
	segs, _ := wire.ParseSegments(raw)
	for _, sg := range segs {
		if sg.Conv != conv || len(sg.Data) > 1500 {
			return // Input stops at the first segment it rejects
		}
		m.rmtWnd = uint32(sg.Wnd)
	}
}

type c04Obs struct {
	sm         [2]*senderModel
	fullRcvQ   bool
	fullSndWnd bool
	timeoutNC0 bool
	knownCwnd  int
}

// attachC04 wires the C04 oracles into a CoreSim.
func attachC04(s *sim.CoreSim, obs *c04Obs) {
	obs.sm = [2]*senderModel{newSenderModel(), newSenderModel()}
	snmp := func() (uint64, uint64) {
		c := kcp.DefaultSnmp.Copy()
		return c.LostSegs, c.FastRetransSegs + c.EarlyRetransSegs
	}
	for i := 0; i < 2; i++ {
		obs.sm[i].lostBase, obs.sm[i].fastBase = snmp()
	}
	s.OnDeliver = func(to int, raw []byte) { obs.sm[to].deliver(s.Cfg.Conv, raw) }
	s.OnEmit = func(e *sim.Emitted) error {
		if e.Err != nil {
			return fmt.Errorf("emitted datagram does not parse: %v", e.Err)
		}
		k := s.K[e.From]
		st := k.VerifState(false)
		m := obs.sm[e.From]
		if m.afterLoss && sdiff(st.SndUna, m.lossOldest) > 0 {
			m.afterLoss = false
		}
		free := 0
		if st.RcvQueue < int(st.RcvWnd) {
			free = int(st.RcvWnd) - st.RcvQueue
		}
		for _, sg := range e.Segs {
			if int(sg.Wnd) > free {
				return fmt.Errorf("segment cmd=%d sn=%d advertises window %d, delivery queue has room for %d (rcv_wnd=%d, queued=%d)", sg.Cmd, sg.Sn, sg.Wnd, free, st.RcvWnd, st.RcvQueue)
			}
			if sg.Cmd == wire.CmdPush && m.seen[sg.Sn] && !m.rtoPending {
				full := k.VerifState(true)
				for j, sn := range full.SndBufSn {
					if sn == sg.Sn && full.SndBufAcked[j] == 0 && full.SndBufFastack[j] == 0 {
						m.rtoPending = true
					}
				}
			}
			if sg.Cmd != wire.CmdPush || m.seen[sg.Sn] {
				continue
			}
			m.seen[sg.Sn] = true
			// a new sn: it was admitted only if fewer than the effective window were outstanding
			// The congestion window that admitted the segment is the one at the
			// start of the flush. The hook reads it at emission time, which for
			// the last datagram of a flush is after the flush's own cwnd update;
			// so the bound is the larger of "after the previous step" and "now",
			// plus the at most 2 segments one Input call can add before it
			// flushes (exact for timer- and Send-driven flushes).
			lim := min(st.SndWnd, m.rmtWnd)
			if st.Nocwnd == 0 {
				cw := max(st.Cwnd, m.prevCwnd)
				if s.InCall == "Input" {
					cw += 2
				}
				lim = min(lim, cw)
			}
			if out := sdiff(sg.Sn, st.SndUna); out < 0 || uint32(out) >= lim {
				return fmt.Errorf("new sn %d put on the wire with %d segments outstanding; limit min(snd_wnd=%d, peer window last delivered=%d, cwnd=%d nc=%d)", sg.Sn, out, st.SndWnd, m.rmtWnd, st.Cwnd, st.Nocwnd)
			}
			if m.afterLoss {
				if m.fastSince && hx.IsKnown("C04:new-sn-after-timeout-once-fast-retransmit-reopens-cwnd") {
					obs.knownCwnd++
				} else {
					return fmt.Errorf("new sn %d admitted after a timeout loss while the segment that was oldest then (sn %d) is still unacknowledged (snd_una=%d, cwnd=%d, fast retransmit since=%v)", sg.Sn, m.lossOldest, st.SndUna, st.Cwnd, m.fastSince)
				}
			}
		}
		return nil
	}
	s.OnStep = func(what string, ep int) error {
		lost, fast := snmp()
		for i := 0; i < 2; i++ {
			k := s.K[i]
			if err := windowInvariants(k); err != nil {
				return fmt.Errorf("endpoint %d: %v", i, err)
			}
			st := k.VerifState(false)
			if st.RcvQueue == int(st.RcvWnd) {
				obs.fullRcvQ = true
			}
			if sdiff(st.SndNxt, st.SndUna) == int32(st.SndWnd) {
				obs.fullSndWnd = true
			}
			m := obs.sm[i]
			if m.afterLoss && sdiff(st.SndUna, m.lossOldest) > 0 {
				m.afterLoss = false
			}
		}
		// counters are global: attribute a change to the endpoint that just acted
		if ep >= 0 {
			m := obs.sm[ep]
			st := s.K[ep].VerifState(false)
			if fast > m.fastBase && m.afterLoss {
				m.fastSince = true
			}
			if (lost > m.lostBase || m.rtoPending) && st.Nocwnd == 0 && st.SndBuf > 0 {
				m.afterLoss = true
				m.fastSince = false
				m.lossOldest = st.SndUna
				obs.timeoutNC0 = true
			}
		}
		for i := 0; i < 2; i++ {
			obs.sm[i].lostBase, obs.sm[i].fastBase = lost, fast
			obs.sm[i].prevCwnd = s.K[i].VerifState(false).Cwnd
			obs.sm[i].rtoPending = false
		}
		return nil
	}
}

func TestC04Core(t *testing.T) {
	rec := hx.NewRecorder(t)
	opts := sim.FateOpts{MaxExplicit: 20, MaxRegimes: 4, MaxRegLen: 200, MaxDelay: 1500, MaxOutageMs: 20000, MaxOutages: 2}
	rapid.Check(t, func(rt *rapid.T) {
		cfg := sim.DrawCoreCfg(rt)
		fs := sim.DrawFateScript(rt, opts)
		var mtuDrops []mtuChange
		if cfg.Stream {
			for i, n := 0, rapid.SampledFrom([]int{0, 1, 2, 3}).Draw(rt, "nMtuDrops"); i < n; i++ {
				mtuDrops = append(mtuDrops, mtuChange{At: int64(rapid.SampledFrom([]int{30, 150, 400, 1200, 5000, 20_000}).Draw(rt, "mtuAt")), EP: rapid.IntRange(0, 1).Draw(rt, "mtuEP"), MTU: rapid.IntRange(60, 1300).Draw(rt, "mtuTo")})
			}
			sort.SliceStable(mtuDrops, func(i, j int) bool { return mtuDrops[i].At < mtuDrops[j].At })
		}
		// a stream write is cut into segments of the mss in force when it is made,
		// and one write may not exceed 255 segments: the application sizes its
		// writes for the smallest MTU its sender will have
		sizing := cfg
		for _, m := range mtuDrops {
			cur := sizing.EP[m.EP].MTU
			if cur == 0 {
				cur = 1400
			}
			if m.MTU < cur {
				sizing.EP[m.EP].MTU = m.MTU
			}
		}
		app := drawCoreApps(rt, sizing, 30, 120_000)
		// stalled readers fill the delivery queue
		for w := 0; w < 2; w++ {
			if rapid.IntRange(0, 1).Draw(rt, "stall") == 0 {
				app[w].Pauses = append(app[w].Pauses, sim.Pause{AfterBytes: int64(rapid.IntRange(0, 20000).Draw(rt, "stallAfter")), Ms: int64(rapid.SampledFrom([]int{200, 2000, 30000}).Draw(rt, "stallMs"))})
			}
			if rapid.IntRange(0, 2).Draw(rt, "deepBacklog") == 0 {
				app[w].Backlog = 4 * cfg.EP[w].SndWnd
			}
		}
		mtuLowered := 0
		var st sim.CoreStats
		var obs c04Obs
		rapid.SyncTest(rt, func(rt *rapid.T) {
			s := sim.NewCoreSim(cfg, fs, app)
			// stream mode: the application may lower the MTU in mid-connection (an
			// application that sees timeouts and suspects a path-MTU black hole does
			// exactly that, right after a timeout); the window rules are counted in
			// segments and do not care
			for _, m := range mtuDrops {
				m := m
				s.Ops = append(s.Ops, sim.TimedOp{At: m.At, Name: fmt.Sprintf("SetMtu(%d) at endpoint %d", m.MTU, m.EP), Fn: func(s *sim.CoreSim) error {
					if s.K[m.EP].SetMtu(m.MTU) == 0 {
						mtuLowered++
					}
					return nil
				}})
			}
			attachC04(s, &obs)
			err := s.Run(fs.EndTime() + 400_000)
			st = s.Stats
			if err != nil {
				rt.Fatalf("C04 (raw core): %v\nMTU lowered in mid-connection: %+v\ncase: %+v", err, mtuDrops, describeCore(cfg, fs, app))
			}
		})
		cl := coreClasses(&st)
		if obs.fullRcvQ {
			cl = append(cl, "full_delivery_queue")
		}
		if obs.fullSndWnd {
			cl = append(cl, "full_send_window")
		}
		if obs.timeoutNC0 {
			cl = append(cl, "timeout_with_cc")
		}
		if obs.knownCwnd > 0 {
			rec.Exclude("C04:new-sn-after-timeout-once-fast-retransmit-reopens-cwnd")
		}
		if mtuLowered > 0 {
			cl = append(cl, "mtu_lowered_in_mid_connection")
		}
		rec.Case(hx.Hash64(cfg, fs.Describe(), app, mtuDrops), obs.fullRcvQ || obs.fullSndWnd || obs.timeoutNC0, cl...)
		if rec.WantSample() {
			d := describeCore(cfg, fs, app)
			d["stats"] = st
			rec.Sample(d)
		}
	})
}

// TestC04KnownCwndReopen is the minimal reproducer of the listed finding
// "C04:new-sn-after-timeout-once-fast-retransmit-reopens-cwnd" (shrunk by
// rapid from TestC04Core).
func TestC04KnownCwndReopen(t *testing.T) {
	rec := hx.NewRecorder(t)
	const key = "C04:new-sn-after-timeout-once-fast-retransmit-reopens-cwnd"
	cfg := sim.CoreCfg{EP: [2]sim.EPConfig{
		{SndWnd: 3, RcvWnd: 1, Interval: 10, Resend: 1},
		{SndWnd: 1, RcvWnd: 3, Interval: 10},
	}}
	fs := &sim.FateScript{}
	fs.Explicit[0] = []sim.Fate{{Copies: 1}, {}, {}, {}}
	var app [2]sim.AppScript
	app[0].Writes = []int{1, 1, 2752}
	app[1].Pauses = []sim.Pause{{AfterBytes: 0, Ms: 200}}
	var reproduced string
	bubble(t, func() {
		s := sim.NewCoreSim(cfg, fs, app)
		var obs c04Obs
		attachC04(s, &obs)
		// assert even though the class is listed: this test is the reproducer
		strict := s.OnEmit
		s.OnEmit = func(e *sim.Emitted) error {
			m := obs.sm[e.From]
			before := m.afterLoss && m.fastSince
			err := strict(e)
			if before && obs.knownCwnd > 0 && reproduced == "" {
				reproduced = fmt.Sprintf("datagram #%d of endpoint %d at t=%dms carries a new sn while the timeout's oldest segment is unacknowledged", e.Idx, e.From, e.At)
			}
			if err != nil && reproduced == "" {
				reproduced = err.Error()
				return nil
			}
			return err
		}
		if err := s.Run(400_000); err != nil {
			t.Fatalf("unexpected failure in the reproducer: %v", err)
		}
	})
	rec.Case(1, true, "reproducer")
	rec.Case(2, true, "reproducer")
	if reproduced != "" {
		rec.Finding(key, reproduced)
	}
}

func TestC04Hostile(t *testing.T) {
	rec := hx.NewRecorder(t)
	rapid.Check(t, func(rt *rapid.T) {
		cfg := drawHostileCfg(rt)
		nops := rapid.IntRange(1, 120).Draw(rt, "nops")
		var obs hostileObs
		rapid.SyncTest(rt, func(rt *rapid.T) {
			h := newHostileRun(cfg)
			for i := 0; i < nops && h.err == nil; i++ {
				h.step(rt)
			}
			obs = h.obs
			if h.err != nil {
				rt.Fatalf("C04 (hostile peer): %v\nconfig: %+v", h.err, cfg)
			}
		})
		var cl []string
		if obs.outOfWindow > 0 {
			cl = append(cl, "forged_push_outside_window")
		}
		if obs.inWindow > 0 {
			cl = append(cl, "forged_push_inside_window")
		}
		if obs.acksInFlight > 0 {
			cl = append(cl, "forged_ack_of_outstanding_sn")
		}
		if obs.fullRcvQ {
			cl = append(cl, "full_delivery_queue")
		}
		cl = append(cl, "hostile_cases")
		rec.Case(hx.Hash64(cfg, nops, obs), obs.outOfWindow > 0, cl...)
		if rec.WantSample() {
			rec.Sample(map[string]any{"cfg": cfg, "nops": nops, "observed": fmt.Sprintf("%+v", obs)})
		}
	})
}

// TestC04SessionWrite: a session's Write is admitted only while fewer than a
// send window of segments are pending, and otherwise blocks. The oracle lives
// in sim.Pair (every Write is checked against the state at its issue); here
// small send windows and large writes make writers block often. The session's
// own occupancy limits (two dialled ends, windows set before traffic) are
// checked at every read.
func TestC04SessionWrite(t *testing.T) {
	rec := hx.NewRecorder(t)
	rapid.Check(t, func(rt *rapid.T) {
		cfg := drawPairCfg(rt, pairGenOpts{ForceDialed: true, Ciphers: []string{"null", "aes-128", "salsa20", "aes-256-gcm"}})
		for e := 0; e < 2; e++ {
			cfg.Opts[e].SndWnd = rapid.SampledFrom([]int{1, 2, 3, 4, 8}).Draw(rt, "sndwnd")
		}
		fs := sim.DrawFateScript(rt, sim.FateOpts{MaxExplicit: 8, MaxRegimes: 2, MaxRegLen: 80, MaxDelay: 300, MaxLossPm: 200})
		app := drawSessApps(rt, pairMSS(cfg), 25, 80_000)
		blockedWrites := 0
		rapid.SyncTest(rt, func(rt *rapid.T) {
			s := sim.NewSessSim(cfg.ClockOff, cfg.EntropySeed)
			p, err := sim.NewPair(s, cfg, app)
			if err != nil {
				rt.Fatalf("setup: %v", err)
			}
			defer p.Finish(nil)
			setPairLinks(s, p, fs)
			p.OnRead = func(r, n int, err error) {
				for e := 0; e < 2; e++ {
					if err := sessionLimits(p.Sess[e]); err != nil {
						s.Fail("end %d: %v", e, err)
					}
					if !p.Sess[e].VerifWritable() {
						blockedWrites++
					}
				}
			}
			if err := p.Run(fs.EndTime()+300_000, false); err != nil {
				rt.Fatalf("C04 (session): %v\ncase: %+v", err, describePair(cfg, fs, app))
			}
		})
		rec.Case(hx.Hash64(describePair(cfg, fs, app)), blockedWrites > 0, "session_write_cases")
		if rec.WantSample() {
			rec.Sample(describePair(cfg, fs, app))
		}
	})
}

// TestC04SessionWindow: the sender-side window rule at session level, with FEC:
// a new sequence number goes on the wire only while fewer than
// min(snd_wnd, the peer's window as last advertised in a datagram that
// actually ARRIVED) segments are outstanding. With FEC on, the core is also fed
// packets that were reconstructed from parity; those are older than what has
// already been processed and their window field must not be taken as news. The
// model takes the peer's window from the wire (regular data packets as they are
// delivered, processed in order), never from the implementation. Congestion
// control is switched off so that the two windows are the whole rule; slow and
// stalled readers make the advertised window move.
func TestC04SessionWindow(t *testing.T) {
	rec := hx.NewRecorder(t)
	rapid.Check(t, func(rt *rapid.T) {
		cfg := drawPairCfg(rt, pairGenOpts{FECMode: 1, ForceDialed: true, Ciphers: []string{"null", "aes-128", "salsa20", "aes-128-gcm"}})
		if rapid.Bool().Draw(rt, "smallGroups") {
			d, q := rapid.IntRange(1, 3).Draw(rt, "fecDsmall"), rapid.IntRange(1, 2).Draw(rt, "fecPsmall")
			cfg.FEC = [2][2]int{{d, q}, {d, q}}
		}
		for e := 0; e < 2; e++ {
			cfg.Opts[e].NC = 1
			cfg.Opts[e].RcvWnd = rapid.SampledFrom([]int{1, 2, 4, 8, 32}).Draw(rt, "rcvwnd")
			cfg.Opts[e].SndWnd = rapid.SampledFrom([]int{2, 8, 32, 128}).Draw(rt, "sndwnd")
		}
		fs := sim.DrawFateScript(rt, sim.FateOpts{MaxExplicit: 12, MaxRegimes: 3, MaxRegLen: 120, MaxDelay: 300, MaxLossPm: 300})
		app := drawSessApps(rt, pairMSS(cfg), 25, 80_000)
		var pauseSum int64
		for w := 0; w < 2; w++ {
			var total int64
			for _, n := range app[w].Writes {
				total += int64(n)
			}
			if total > 0 && rapid.Bool().Draw(rt, "stalls") {
				app[w].Pauses, _ = drawPauses(rt, total)
				for i := range app[w].Pauses {
					app[w].Pauses[i].Ms = min(app[w].Pauses[i].Ms, 40_000)
					pauseSum += app[w].Pauses[i].Ms
				}
			}
		}
		var d snmpDelta
		shrunk, newSegs := 0, 0
		rapid.SyncTest(rt, func(rt *rapid.T) {
			before := kcp.DefaultSnmp.Copy()
			s := sim.NewSessSim(cfg.ClockOff, cfg.EntropySeed)
			p, err := sim.NewPair(s, cfg, app)
			if err != nil {
				rt.Fatalf("setup: %v", err)
			}
			defer p.Finish(nil)
			setPairLinks(s, p, fs)
			rmtWnd := [2]uint32{32, 32} // what the core assumes before it has heard from its peer
			seen := [2]map[uint32]bool{{}, {}}
			endOf := func(addr string) int {
				if addr == p.Addr[1].String() {
					return 1
				}
				return 0
			}
			s.OnDeliver = func(to string, from net.Addr, data []byte) {
				e := endOf(to)
				_, pl, err := p.Crypto.Open(data)
				if err != nil {
					return
				}
				fr, err := wire.ParseFrame(pl, true)
				if err != nil || fr.Type != wire.TypeData {
					return // parity (and OOB) carry no window of their own
				}
				for _, sg := range fr.Segments {
					if sg.Conv != cfg.Conv {
						return
					}
					if uint32(sg.Wnd) < rmtWnd[e] {
						shrunk++
					}
					rmtWnd[e] = uint32(sg.Wnd)
				}
			}
			s.OnSent = func(dg *sim.Sent, from, to string, f *sim.Fate) error {
				e := endOf(from)
				_, pl, err := p.Crypto.Open(dg.Data)
				if err != nil {
					return err
				}
				fr, err := wire.ParseFrame(pl, true)
				if err != nil || fr.Type != wire.TypeData {
					return err
				}
				var una, sndWnd uint32
				p.Sess[e].VerifWithKCP(func(k *kcp.KCP) { st := k.VerifState(false); una, sndWnd = st.SndUna, st.SndWnd })
				for _, sg := range fr.Segments {
					if sg.Cmd != wire.CmdPush || seen[e][sg.Sn] {
						continue
					}
					seen[e][sg.Sn] = true
					newSegs++
					lim := min(sndWnd, rmtWnd[e])
					if out := sdiff(sg.Sn, una); out >= 0 && uint32(out) >= lim {
						return fmt.Errorf("end %d put new sn %d on the wire with %d segments outstanding; limit min(snd_wnd=%d, window the peer last advertised in a datagram that arrived=%d)", e, sg.Sn, out, sndWnd, rmtWnd[e])
					}
				}
				return nil
			}
			err = runPairUntilComplete(p, s, fs.EndTime()+2*pauseSum, 0, cfg.Opts[0].Interval+cfg.Opts[1].Interval)
			if err == errScriptUnfinished {
				rec.Class("script_unfinished_inconclusive", 1)
				err = nil
			}
			d = snmpSince(before)
			if err != nil {
				rt.Fatalf("C04 (session, FEC): %v\ncase: %+v", err, describePair(cfg, fs, app))
			}
		})
		cl := []string{"cipher_" + cfg.Cipher}
		if d.FECRecovered > 0 {
			cl = append(cl, "fec_recovery_used")
		}
		if shrunk > 0 {
			cl = append(cl, "advertised_window_shrank")
		}
		if pauseSum > 0 {
			cl = append(cl, "reader_stalled")
		}
		rec.Add("n_new_segments_checked", int64(newSegs))
		rec.Case(hx.Hash64(describePair(cfg, fs, app)), d.FECRecovered > 0 && shrunk > 0, cl...)
		if rec.WantSample() {
			dd := describePair(cfg, fs, app)
			dd["fec_recovered"], dd["window_shrinks_seen"], dd["new_segments_checked"] = d.FECRecovered, shrunk, newSegs
			rec.Sample(dd)
		}
	})
}
