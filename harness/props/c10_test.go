package props

// C10: no datagram exceeds the configured MTU; an MTU that SetMtu accepts is
// honoured from then on without crashing, whenever it is set; a value that
// cannot be honoured is refused.

import (
	"fmt"
	"math"
	"sort"
	"testing"

	"pgregory.net/rapid"
	"verif/harness/hx"
	"verif/harness/sim"
)

func drawAnyMTU(t *rapid.T, label string) int {
	switch rapid.IntRange(0, 5).Draw(t, label+"kind") {
	case 0:
		return rapid.SampledFrom([]int{math.MinInt, -1, 0, 1, 23, 24, 25, 26, 48, 49, 50}).Draw(t, label+"low")
	case 1:
		return rapid.SampledFrom([]int{1399, 1400, 1401, 1476, 1499, 1500, 1501, 1524, 1525, 3000, 9000, 65535, 65536, 1 << 31, math.MaxInt}).Draw(t, label+"high")
	default:
		return rapid.IntRange(25, 1500).Draw(t, label+"mid")
	}
}

type mtuChange struct {
	At  int64
	EP  int
	MTU int
}

func TestC10Core(t *testing.T) {
	rec := hx.NewRecorder(t)
	opts := sim.FateOpts{MaxExplicit: 12, MaxRegimes: 2, MaxRegLen: 100, MaxDelay: 600, MaxOutageMs: 5000, MaxOutages: 1}
	rapid.Check(t, func(rt *rapid.T) {
		cfg := sim.DrawCoreCfg(rt)
		fs := sim.DrawFateScript(rt, opts)
		var changes []mtuChange
		for i, n := 0, rapid.IntRange(1, 4).Draw(rt, "nchanges"); i < n; i++ {
			changes = append(changes, mtuChange{
				At:  int64(rapid.SampledFrom([]int{0, 0, 1, 15, 40, 120, 400, 2500}).Draw(rt, "at")),
				EP:  rapid.IntRange(0, 1).Draw(rt, "ep"),
				MTU: drawAnyMTU(rt, "mtu"),
			})
		}
		sort.SliceStable(changes, func(i, j int) bool { return changes[i].At < changes[j].At })
		// message mode: a message must fit the peer's receive window under the
		// smallest MTU its sender will ever have (KCP's documented limit), so
		// the application sizes its messages for that MTU
		sizing := cfg
		for _, c := range changes {
			cur := sizing.EP[c.EP].MTU
			if cur == 0 {
				cur = 1400
			}
			if c.MTU > 24 && c.MTU < cur {
				sizing.EP[c.EP].MTU = c.MTU
			}
		}
		app := drawCoreApps(rt, sizing, 20, 60_000)
		var st sim.CoreStats
		whileQueued, accepted, refused, nearBoundary, big := 0, 0, 0, 0, 0
		rapid.SyncTest(rt, func(rt *rapid.T) {
			s := sim.NewCoreSim(cfg, fs, app)
			model := [2]int{1400, 1400}
			for i := 0; i < 2; i++ {
				if cfg.EP[i].MTU != 0 {
					model[i] = cfg.EP[i].MTU
				}
			}
			for _, c := range changes {
				c := c
				s.Ops = append(s.Ops, sim.TimedOp{At: c.At, Name: fmt.Sprintf("SetMtu(%d) at endpoint %d", c.MTU, c.EP), Fn: func(s *sim.CoreSim) error {
					queued := s.K[c.EP].WaitSnd()
					ret := s.K[c.EP].SetMtu(c.MTU)
					if ret == 0 {
						model[c.EP] = c.MTU
						accepted++
						if queued > 0 {
							whileQueued++
						}
						if c.MTU > 1500 {
							big++
						}
						if c.MTU <= 26 || (c.MTU >= 1498 && c.MTU <= 1502) {
							nearBoundary++
						}
					} else {
						refused++
					}
					return nil
				}})
			}
			s.OnEmit = func(e *sim.Emitted) error {
				if len(e.Raw) == 0 {
					return fmt.Errorf("output callback given an empty packet")
				}
				if len(e.Raw) > model[e.From] {
					return fmt.Errorf("output callback given %d bytes, the last accepted MTU of this core is %d", len(e.Raw), model[e.From])
				}
				return e.Err
			}
			err := runUntilDrained(s, sizing, fs, app)
			st = s.Stats
			if err == errScriptUnfinished {
				rec.Class("script_unfinished_inconclusive", 1)
				err = nil
			}
			if err != nil {
				rt.Fatalf("C10 (raw core): %v\nmtu changes: %+v\ncase: %+v", err, changes, describeCore(cfg, fs, app))
			}
		})
		var cl []string
		if whileQueued > 0 {
			cl = append(cl, "mtu_changed_with_data_queued")
		}
		if nearBoundary > 0 {
			cl = append(cl, "mtu_near_boundary")
		}
		if big > 0 {
			cl = append(cl, "raw_mtu_gt_1500")
		}
		if refused > 0 {
			cl = append(cl, "refused")
		}
		if accepted > 0 {
			cl = append(cl, "accepted")
		}
		if st.Retrans[0]+st.Retrans[1] > 0 {
			cl = append(cl, "retransmission")
		}
		rec.Case(hx.Hash64(cfg, changes, fs.Describe(), app), whileQueued > 0 || nearBoundary > 0 || big > 0, cl...)
		if rec.WantSample() {
			d := describeCore(cfg, fs, app)
			d["mtu_changes"] = changes
			rec.Sample(d)
		}
	})
}
