package props

// C10: no datagram exceeds the configured MTU; an MTU that SetMtu accepts is
// honoured from then on without crashing, whenever it is set; a value that
// cannot be honoured is refused.

import (
	"fmt"
	"math"
	"sort"
	"testing"
	"verif/harness/wire"

	"pgregory.net/rapid"
	"verif/harness/hx"
	"verif/harness/sim"
)

func drawAnyMTU(t *rapid.T, label string) int {
	switch rapid.IntRange(0, 5).Draw(t, label+"kind") {
	case 0:
		return rapid.SampledFrom([]int{math.MinInt, -1, 0, 1, 23, 24, 25, 26, 48, 49, 50}).Draw(t, label+"low")
	case 1:
		return rapid.SampledFrom([]int{1399, 1400, 1401, 1476, 1499, 1500, 1501, 1524, 1525, 3000, 9000, 65535, 65536, 1 << 31, math.MaxInt}).Draw(t, label+"high")
	default:
		return rapid.IntRange(25, 1500).Draw(t, label+"mid")
	}
}

type mtuChange struct {
	At  int64
	EP  int
	MTU int
}

func TestC10Core(t *testing.T) {
	rec := hx.NewRecorder(t)
	opts := sim.FateOpts{MaxExplicit: 12, MaxRegimes: 2, MaxRegLen: 100, MaxDelay: 600, MaxOutageMs: 5000, MaxOutages: 1}
	rapid.Check(t, func(rt *rapid.T) {
		cfg := sim.DrawCoreCfg(rt)
		fs := sim.DrawFateScript(rt, opts)
		var changes []mtuChange
		for i, n := 0, rapid.IntRange(1, 4).Draw(rt, "nchanges"); i < n; i++ {
			changes = append(changes, mtuChange{
				At:  int64(rapid.SampledFrom([]int{0, 0, 1, 15, 40, 120, 400, 2500}).Draw(rt, "at")),
				EP:  rapid.IntRange(0, 1).Draw(rt, "ep"),
				MTU: drawAnyMTU(rt, "mtu"),
			})
		}
		sort.SliceStable(changes, func(i, j int) bool { return changes[i].At < changes[j].At })
		// message mode: a message must fit the peer's receive window under the
		// smallest MTU its sender will ever have (KCP's documented limit), so
		// the application sizes its messages for that MTU
		sizing := cfg
		for _, c := range changes {
			cur := sizing.EP[c.EP].MTU
			if cur == 0 {
				cur = 1400
			}
			if c.MTU > 24 && c.MTU < cur {
				sizing.EP[c.EP].MTU = c.MTU
			}
		}
		app := drawCoreApps(rt, sizing, 20, 60_000)
		// readers that stall at both ends close both windows: window probes and
		// window announcements then travel in both directions and can fall due in
		// one flush together with acknowledgements - the control segments have to
		// fit the MTU like everything else
		var pauseSum int64
		stalls := rapid.Bool().Draw(rt, "stalls")
		if stalls {
			for w := 0; w < 2; w++ {
				if len(app[w].Writes) == 0 {
					app[w].Writes = []int{1, 1, 1, 1, 1, 1}
				}
				for i, n := 0, rapid.IntRange(1, 2).Draw(rt, "nStalls"); i < n; i++ {
					ps := sim.Pause{AfterBytes: int64(rapid.IntRange(0, 3000).Draw(rt, "stallAfter")), Ms: int64(rapid.SampledFrom([]int{700, 3000, 20_000}).Draw(rt, "stallMs"))}
					app[w].Pauses = append(app[w].Pauses, ps)
					pauseSum += ps.Ms
				}
				sort.SliceStable(app[w].Pauses, func(i, j int) bool { return app[w].Pauses[i].AfterBytes < app[w].Pauses[j].AfterBytes })
			}
		}
		var st sim.CoreStats
		whileQueued, accepted, refused, nearBoundary, big := 0, 0, 0, 0, 0
		rapid.SyncTest(rt, func(rt *rapid.T) {
			s := sim.NewCoreSim(cfg, fs, app)
			model := [2]int{1400, 1400}
			for i := 0; i < 2; i++ {
				if cfg.EP[i].MTU != 0 {
					model[i] = cfg.EP[i].MTU
				}
			}
			for _, c := range changes {
				c := c
				s.Ops = append(s.Ops, sim.TimedOp{At: c.At, Name: fmt.Sprintf("SetMtu(%d) at endpoint %d", c.MTU, c.EP), Fn: func(s *sim.CoreSim) error {
					queued := s.K[c.EP].WaitSnd()
					ret := s.K[c.EP].SetMtu(c.MTU)
					if ret == 0 {
						model[c.EP] = c.MTU
						accepted++
						if queued > 0 {
							whileQueued++
						}
						if c.MTU > 1500 {
							big++
						}
						if c.MTU <= 26 || (c.MTU >= 1498 && c.MTU <= 1502) {
							nearBoundary++
						}
					} else {
						refused++
					}
					return nil
				}})
			}
			s.OnEmit = func(e *sim.Emitted) error {
				if len(e.Raw) == 0 {
					return fmt.Errorf("output callback given an empty packet")
				}
				if len(e.Raw) > model[e.From] {
					return fmt.Errorf("output callback given %d bytes, the last accepted MTU of this core is %d", len(e.Raw), model[e.From])
				}
				return e.Err
			}
			err := runUntilDrainedAfter(s, sizing, fs, app, 2*pauseSum+fs.EndTime())
			st = s.Stats
			if err == errScriptUnfinished {
				rec.Class("script_unfinished_inconclusive", 1)
				err = nil
			}
			if err != nil {
				rt.Fatalf("C10 (raw core): %v\nmtu changes: %+v\ncase: %+v", err, changes, describeCore(cfg, fs, app))
			}
		})
		var cl []string
		if stalls {
			cl = append(cl, "readers_stalled_at_both_ends")
		}
		if whileQueued > 0 {
			cl = append(cl, "mtu_changed_with_data_queued")
		}
		if nearBoundary > 0 {
			cl = append(cl, "mtu_near_boundary")
		}
		if big > 0 {
			cl = append(cl, "raw_mtu_gt_1500")
		}
		if refused > 0 {
			cl = append(cl, "refused")
		}
		if accepted > 0 {
			cl = append(cl, "accepted")
		}
		if st.Retrans[0]+st.Retrans[1] > 0 {
			cl = append(cl, "retransmission")
		}
		rec.Case(hx.Hash64(cfg, changes, fs.Describe(), app), whileQueued > 0 || nearBoundary > 0 || big > 0, cl...)
		if rec.WantSample() {
			d := describeCore(cfg, fs, app)
			d["mtu_changes"] = changes
			rec.Sample(d)
		}
	})
}

// TestC10Session: UDPSession.SetMtu with any int, before and during generated
// lossy traffic, for every cipher / FEC overhead combination. At the
// PacketConn boundary every datagram (data, parity, OOB) must fit the last
// MTU SetMtu accepted (default 1400, capped at 1500).
func TestC10Session(t *testing.T) {
	rec := hx.NewRecorder(t)
	rapid.Check(t, func(rt *rapid.T) {
		cfg := drawPairCfg(rt, pairGenOpts{ForceDialed: true})
		cfg.Opts[0].MTU, cfg.Opts[1].MTU = 0, 0
		cfg.Opts[0].Stream, cfg.Opts[1].Stream = true, true // chunking changes with the MTU: boundaries are not the subject here
		fs := sim.DrawFateScript(rt, sim.FateOpts{MaxExplicit: 8, MaxRegimes: 2, MaxRegLen: 80, MaxDelay: 300, MaxLossPm: 200})
		// MTUs a few bytes above the minimum leave 1..40 bytes per segment: such
		// cases carry little data so that they stay cheap and the bound stays honest
		tiny := rapid.Bool().Draw(rt, "tinyMTUs")
		maxTotal := 60_000
		if tiny {
			maxTotal = 2_500
		}
		app := drawSessApps(rt, pairMSS(cfg), 20, maxTotal)
		// idle gaps longer than the FEC encoder's 500 ms continuity limit make it
		// skip parity rounds: what it keeps from such a round must not outlive an
		// MTU change either
		idleGaps := cfg.FEC[0][0] > 0 && rapid.Bool().Draw(rt, "idleGaps")
		if idleGaps {
			for w := 0; w < 2; w++ {
				app[w].GapMs = nil
				for range app[w].Writes {
					app[w].GapMs = append(app[w].GapMs, int32(rapid.SampledFrom([]int{0, 0, 0, 600, 900}).Draw(rt, "idleGap")))
				}
			}
			if rapid.Bool().Draw(rt, "smallGroups") {
				d, q := rapid.IntRange(1, 3).Draw(rt, "fecDsmall"), rapid.IntRange(1, 2).Draw(rt, "fecPsmall")
				cfg.FEC = [2][2]int{{d, q}, {d, q}}
			}
		}
		every := rapid.IntRange(1, 6).Draw(rt, "every")
		nChanges := rapid.IntRange(1, 6).Draw(rt, "nChanges")
		accepted, refused, shrinks, parityAfterShrink := 0, 0, 0, 0
		oobCalls := 0
		rapid.SyncTest(rt, func(rt *rapid.T) {
			s := sim.NewSessSim(cfg.ClockOff, cfg.EntropySeed)
			p, err := sim.NewPair(s, cfg, app)
			if err != nil {
				rt.Fatalf("setup: %v", err)
			}
			defer p.Finish(nil)
			setPairLinks(s, p, fs)
			model := [2]int{1400, 1400}
			prevModel := [2]int{1400, 1400}
			// the FEC group that was unfinished at the last shrink (the listed
			// finding is about that group's parity and nothing else)
			straddle := [2]int64{-1, -1}
			type grp struct{ n, longest int }
			groups := [2]map[int64]*grp{{}, {}} // data packets seen per FEC group: count and longest datagram
			minOK := sessMinMTU(p.Crypto, cfg.FEC[0][0] > 0)
			s.OnSent = func(d *sim.Sent, from, to string, f *sim.Fate) error {
				e := 0
				if from == p.Addr[1].String() {
					e = 1
				}
				isParity := false
				group := int64(-2)
				if cfg.FEC[e][0] > 0 {
					if _, pl, err := p.Crypto.Open(d.Data); err == nil {
						if fr, err := wire.ParseFrame(pl, true); err == nil && fr.SeqID != wire.OOBSeqID {
							group = int64(fr.SeqID) / int64(cfg.FEC[e][0]+cfg.FEC[e][1])
							g := groups[e][group]
							if g == nil {
								g = &grp{}
								groups[e][group] = g
								delete(groups[e], group-4)
							}
							if fr.Type == wire.TypeParity {
								isParity = true
								// a parity packet is as long as the longest data packet of its
								// group (that is what bounds it by the MTU), never longer
								if g.n == cfg.FEC[e][0] && len(d.Data) != g.longest {
									return fmt.Errorf("parity packet of %d bytes for FEC group %d whose longest data packet has %d bytes (session MTU %d)", len(d.Data), group, g.longest, model[e])
								}
							} else {
								g.n++
								g.longest = max(g.longest, len(d.Data))
							}
						}
					}
				}
				if isParity && group == straddle[e] {
					if len(d.Data) > model[e] && len(d.Data) <= prevModel[e] && hx.IsKnown(c10KeyParity) {
						parityAfterShrink++
						return nil // listed finding: parity of the group that straddles the shrink
					}
				}
				if len(d.Data) > model[e] {
					kind := "datagram"
					if isParity {
						kind = "parity packet"
					}
					return fmt.Errorf("%s of %d bytes handed to the PacketConn, the session's MTU is %d", kind, len(d.Data), model[e])
				}
				return nil
			}
			changes, reads := 0, 0
			change := func() {
				e := rapid.IntRange(0, 1).Draw(rt, "end")
				v := drawAnyMTU(rt, "mtu")
				if tiny {
					if rapid.Bool().Draw(rt, "nearMin") {
						v = minOK + rapid.IntRange(-2, 40).Draw(rt, "aroundMin")
					}
				} else if v >= minOK && v < minOK+150 {
					v += 150
				}
				s.Quiesce()
				ok := p.Sess[e].SetMtu(v)
				changes++
				if ok {
					accepted++
					nv := min(v, 1500)
					if nv < model[e] {
						shrinks++
						prevModel[e] = max(prevModel[e], model[e])
						straddle[e] = -1
						if st := p.Sess[e].VerifFEC(); st.HasEncoder && st.EncShardCount > 0 {
							straddle[e] = int64(st.EncNext) / int64(st.EncData+st.EncParity)
						}
					}
					model[e] = nv
					if v < minOK {
						s.Fail("SetMtu(%d) accepted; with this cipher/FEC layout a KCP segment header does not fit below %d", v, minOK)
					}
				} else {
					refused++
				}
			}
			// with idle gaps, the call is made a while after the read, when the
			// acknowledgements are back and the sender's buffers are empty: a
			// shrink is only accepted on a quiet connection
			changeAt := int64(-1)
			// out-of-band packets obey the MTU in force as well: the largest
			// payload the session offers must go out (as a datagram of exactly the
			// MTU), anything longer must be refused, not sent oversized
			sendOOB := func() {
				e := rapid.IntRange(0, 1).Draw(rt, "oobEnd")
				x := p.Sess[e]
				if x == nil || cfg.FEC[e][0] == 0 {
					return
				}
				maxN := x.GetOOBMaxSize()
				for _, extra := range []int{0, rapid.IntRange(1, 12).Draw(rt, "oobExtra")} {
					n := maxN + extra
					if n < 0 {
						continue
					}
					err := x.SendOOB(make([]byte, n))
					oobCalls++
					s.Quiesce()
					if extra == 0 && err != nil {
						s.Fail("SendOOB of GetOOBMaxSize() = %d bytes refused at end %d: %v (session MTU %d)", n, e, err, model[e])
					}
				}
			}
			p.OnRead = func(r, n int, err error) {
				reads++
				if reads%3 == 1 && oobCalls < 40 {
					sendOOB()
				}
				if reads%every == 0 && changes < nChanges {
					if idleGaps && changeAt < 0 {
						changeAt = s.Now() + int64(rapid.SampledFrom([]int{150, 300, 450}).Draw(rt, "changeDelay"))
						s.WakeAt(changeAt)
					} else if !idleGaps {
						change()
					}
				}
			}
			s.AfterEvent = func() {
				if changeAt >= 0 && s.Now() >= changeAt && s.Err() == nil {
					changeAt = -1
					change()
				}
			}
			if rapid.Bool().Draw(rt, "beforeTraffic") {
				change()
			}
			var total int64
			for w := 0; w < 2; w++ {
				_, _, tt := p.Progress(w)
				total += tt
			}
			segs := total/100 + 10
			if tiny {
				segs = total + 10 // down to one byte per segment
			}
			err = runPairUntilComplete(p, s, fs.EndTime(), segs, cfg.Opts[0].Interval+cfg.Opts[1].Interval+int(fs.BaseDelay[0]+fs.BaseDelay[1]))
			if err == errScriptUnfinished {
				rec.Class("script_unfinished_inconclusive", 1)
				err = nil
			}
			if err != nil {
				rt.Fatalf("C10 (session): %v\ncase: %+v", err, describePair(cfg, fs, app))
			}
		})
		cl := []string{"cipher_" + cfg.Cipher}
		if shrinks > 0 {
			cl = append(cl, "mtu_shrunk_during_traffic")
		}
		if accepted > 0 {
			cl = append(cl, "accepted")
		}
		if refused > 0 {
			cl = append(cl, "refused")
		}
		if cfg.FEC[0][0] > 0 {
			cl = append(cl, "fec_on")
		}
		if idleGaps {
			cl = append(cl, "idle_gaps_beyond_fec_continuity_limit")
		}
		if oobCalls > 0 {
			cl = append(cl, "oob_at_and_beyond_the_size_limit")
		}
		for i := 0; i < parityAfterShrink; i++ {
			rec.Exclude(c10KeyParity)
		}
		rec.Case(hx.Hash64(describePair(cfg, fs, app), every, nChanges), shrinks > 0 || refused > 0, cl...)
		if rec.WantSample() {
			d := describePair(cfg, fs, app)
			d["mtu_changes"] = map[string]int{"accepted": accepted, "refused": refused, "shrinks": shrinks}
			rec.Sample(d)
		}
	})
}

const c10KeyParity = "C10:parity-of-group-straddling-mtu-shrink"

// TestC10KnownParityAfterShrink is the reproducer of the listed finding c10KeyParity.
func TestC10KnownParityAfterShrink(t *testing.T) {
	rec := hx.NewRecorder(t)
	what := ""
	bubble(t, func() {
		s := sim.NewSessSim(0, 3)
		cfg := sim.PairCfg{Cipher: "null", FEC: [2][2]int{{2, 1}, {2, 1}}, Conv: 9,
			Opts: [2]sim.SessOpts{{SndWnd: 32, RcvWnd: 32, NoDelay: 1, Interval: 10, NC: 1, Stream: true}, {SndWnd: 32, RcvWnd: 32, NoDelay: 1, Interval: 10, NC: 1, Stream: true}}}
		p, err := sim.NewPair(s, cfg, [2]sim.AppScript{})
		if err != nil {
			t.Fatal(err)
		}
		mtu := 1400
		s.OnSent = func(d *sim.Sent, from, to string, f *sim.Fate) error {
			if from == p.Addr[0].String() && len(d.Data) > mtu && what == "" {
				what = fmt.Sprintf("FEC 2/1: after SetMtu(200) was accepted a %d-byte datagram (parity of the group begun before the shrink) went to the PacketConn", len(d.Data))
			}
			return nil
		}
		p.Sess[0].Write(make([]byte, 1300)) // first data packet of the group, cut for MTU 1400
		s.SleepTo(30)                       // acknowledged: nothing cut for the old MTU is queued in the core any more
		if p.Sess[0].SetMtu(200) {
			mtu = 200
		}
		p.Sess[0].Write(make([]byte, 10)) // completes the group: parity is as long as its longest member
		s.SleepTo(50)
		p.Finish(nil)
	})
	rec.Case(1, true, "reproducer")
	rec.Case(2, true, "reproducer")
	if what != "" {
		rec.Finding(c10KeyParity, what)
	}
}
