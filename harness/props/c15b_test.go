package props

// C15 at the boundary of the listener's accept backlog: first datagrams from
// N distinct peers (N around the backlog size) reach a listener whose
// application accepts only a few of them; then everything is closed. Close must
// return, the reader goroutine must end with the transport, and every session
// the listener created - handed out or not - must be gone.

import (
	"crypto/rand"
	"fmt"
	"net"
	"runtime"
	"strings"
	"sync"
	"sync/atomic"
	"testing"
	"time"

	kcp "github.com/xtaci/kcp-go/v5"
	"pgregory.net/rapid"
	"verif/harness/hx"
	"verif/harness/sim"
	"verif/harness/wire"
)

type feedDatagram struct {
	data []byte
	addr net.Addr
}

// feedConn is a transport the test feeds by hand; what the library writes is dropped.
type feedConn struct {
	in    chan feedDatagram
	die   chan struct{}
	once  sync.Once
	reads atomic.Int64 // ReadFrom calls begun
	local net.Addr
}

func newFeedConn(n int) *feedConn {
	return &feedConn{in: make(chan feedDatagram, n), die: make(chan struct{}), local: &net.UDPAddr{IP: net.IPv4(10, 9, 9, 9), Port: 9999}}
}
func (c *feedConn) ReadFrom(p []byte) (int, net.Addr, error) {
	c.reads.Add(1)
	select {
	case d := <-c.in:
		return copy(p, d.data), d.addr, nil
	case <-c.die:
		return 0, nil, net.ErrClosed
	}
}
func (c *feedConn) WriteTo(p []byte, addr net.Addr) (int, error) {
	select {
	case <-c.die:
		return 0, net.ErrClosed
	default:
		return len(p), nil
	}
}
func (c *feedConn) Close() error                       { c.once.Do(func() { close(c.die) }); return nil }
func (c *feedConn) LocalAddr() net.Addr                { return c.local }
func (c *feedConn) SetDeadline(t time.Time) error      { return nil }
func (c *feedConn) SetReadDeadline(t time.Time) error  { return nil }
func (c *feedConn) SetWriteDeadline(t time.Time) error { return nil }

// within runs f and reports whether it returned within d of real time. The
// limit is only there to turn "never returns" into a report: f is a call that
// has nothing to wait for.
func within(d time.Duration, f func()) bool {
	done := make(chan struct{})
	go func() { defer close(done); f() }()
	select {
	case <-done:
		return true
	case <-time.After(d):
		return false
	}
}

func TestC15BacklogBoundary(t *testing.T) {
	rec := hx.NewRecorder(t)
	const backlog = 128 // the library's accept backlog
	const patience = 30 * time.Second
	rapid.Check(t, func(rt *rapid.T) {
		cipher := rapid.SampledFrom([]string{"null", "none", "aes-128", "salsa20"}).Draw(rt, "cipher")
		key := rapid.SliceOfN(rapid.Byte(), keyLenFor(cipher), keyLenFor(cipher)).Draw(rt, "key")
		peers := rapid.SampledFrom([]int{1, 5, backlog - 1, backlog, backlog + 1, backlog + 2, backlog + 40}).Draw(rt, "peers")
		accepts := rapid.SampledFrom([]int{0, 0, 1, 3}).Draw(rt, "accepts")
		connFirst := rapid.Bool().Draw(rt, "closeTransportFirst")
		second := rapid.Bool().Draw(rt, "secondDatagramFromEveryPeer")
		crypto, err := wire.NewCrypto(cipher, key)
		if err != nil {
			rt.Fatalf("setup: %v", err)
		}
		what := fmt.Sprintf("cipher %s, %d peers send their first datagram, the application accepts %d, transport closed first: %v", cipher, peers, accepts, connFirst)
		runtime.GC()
		baseG := len(realLibGoroutines())
		fc := newFeedConn(2*peers + 8)
		blk, _ := sim.NewBlockCrypt(cipher, key)
		L, err := kcp.ServeConn(blk, 0, 0, fc)
		if err != nil {
			rt.Fatalf("setup: %v", err)
		}
		fed := 0
		feed := func(i int, sn uint32) {
			seg := wire.Segment{Conv: 0x1000 + uint32(i), Cmd: 81, Wnd: 128, Sn: sn, Data: []byte{byte(i), 2, 3}}.Append(nil)
			var nonce [16]byte
			rand.Read(nonce[:])
			fc.in <- feedDatagram{crypto.Seal(nonce[:], seg), &net.UDPAddr{IP: net.IPv4(10, 1, byte(i>>8), byte(i)), Port: 20000 + i}}
			fed++
		}
		for i := 0; i < peers; i++ {
			feed(i, 0)
		}
		if second {
			for i := 0; i < peers; i++ {
				feed(i, 1)
			}
		}
		// the reader has taken everything when it begins the read after the last datagram
		consumed := within(patience, func() {
			for fc.reads.Load() < int64(fed)+1 {
				time.Sleep(200 * time.Microsecond)
			}
		})
		if !consumed {
			rt.Fatalf("C15 (accept backlog): the listener's reader stopped reading after %d of %d datagrams and has not come back for %v; %s\n%s",
				fc.reads.Load()-1, fed, patience, what, strings.Join(realLibGoroutines(), "\n\n"))
		}
		var mine []*kcp.UDPSession
		for i := 0; i < accepts; i++ {
			L.SetReadDeadline(time.Now().Add(2 * time.Second))
			if c, err := L.AcceptKCP(); err == nil {
				mine = append(mine, c)
			}
		}
		tbl, _ := L.VerifSessions()
		created := len(tbl)
		closeAll := func() {
			if connFirst {
				fc.Close()
			}
			L.Close()
			fc.Close()
			for _, c := range mine {
				c.Close()
			}
		}
		if !within(patience, closeAll) {
			rt.Fatalf("C15 (accept backlog): closing the listener, its transport and the %d accepted session(s) has not returned for %v; %s\n%s",
				len(mine), patience, what, strings.Join(realLibGoroutines(), "\n\n"))
		}
		// every goroutine the listener and its sessions started is gone
		deadline := time.Now().Add(patience)
		for {
			gs := realLibGoroutines()
			if len(gs) <= baseG {
				break
			}
			if time.Now().After(deadline) {
				rt.Fatalf("C15 (accept backlog): %v after everything was closed %d goroutine(s) still run library code (%d before the case); %s\n%s",
					patience, len(gs), baseG, what, gs[0])
			}
			time.Sleep(time.Millisecond)
		}
		if tbl, _ := L.VerifSessions(); len(tbl) != 0 {
			rt.Fatalf("C15 (accept backlog): %d session(s) still in the closed listener's table; %s", len(tbl), what)
		}
		cl := []string{"backlog_cases"}
		if peers > backlog {
			cl = append(cl, "more_peers_than_backlog")
		}
		if peers == backlog || peers == backlog+1 {
			cl = append(cl, "backlog_exactly_full_or_one_over")
		}
		if created > len(mine) {
			cl = append(cl, "closed_with_unaccepted_sessions")
		}
		rec.Case(hx.Hash64(cipher, key, peers, accepts, connFirst, second), created > len(mine), cl...)
		if rec.WantSample() {
			rec.Sample(map[string]any{"cipher": cipher, "peers": peers, "accepted": len(mine), "sessions_created": created, "transport_closed_first": connFirst})
		}
	})
}
