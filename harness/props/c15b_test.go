package props

import (
	"strings"
	"testing"

	kcp "github.com/xtaci/kcp-go/v5"
	"pgregory.net/rapid"
	"verif/harness/hx"
)

// TestC15PoolAutoTune: the FEC decoder's auto-tune path (peer ratio differs,
// including "same total, different split") under the pool sanitizer: no buffer
// is recycled twice, none is written after having been recycled.
func TestC15PoolAutoTune(t *testing.T) {
	rec := hx.NewRecorder(t)
	rapid.Check(t, func(rt *rapid.T) {
		ds, ps := drawRatio(rt, "snd.", false)
		dr, pr := drawRatio(rt, "rcv.", false)
		sameTotal := rapid.IntRange(0, 2).Draw(rt, "sameTotal") == 0 && ds+ps >= 3
		if sameTotal {
			dr = rapid.IntRange(1, ds+ps-1).Draw(rt, "drSameTotal")
			pr = ds + ps - dr
		}
		if ds == dr && ps == pr {
			return
		}
		n := ds + ps
		groups := (258+2*n)/n + 12
		lossEvery := rapid.IntRange(0, 9).Draw(rt, "lossEvery")
		kcp.VerifPoolMode(kcp.VerifPoolQuarantine, 100000, false)
		defer kcp.VerifPoolMode(kcp.VerifPoolOff, 0, false)
		st := newFECStream(ds, ps, rapid.Uint32Range(0, 1<<20).Draw(rt, "group")*uint32(n), 0x15)
		dec := kcp.VerifNewFECDecoder(dr, pr)
		fed, retunes := 0, 0
		last := dec.State()
		for g := 0; g < groups; g++ {
			for i, p := range st.group([]int{80, 300, 24}, false) {
				if lossEvery > 0 && (g*n+i)%(lossEvery+3) == lossEvery {
					continue
				}
				dec.Release(dec.Decode(p.Raw))
				fed++
				if s := dec.State(); s.DecData != last.DecData || s.DecParity != last.DecParity {
					retunes++
					last = s
				}
			}
		}
		rep := kcp.VerifPoolReport()
		if len(rep.Faults) > 0 {
			rt.Fatalf("C15 (pool sanitizer, FEC auto-tune: sender %d/%d, receiver %d/%d, %d packets, %d retunes): %s", ds, ps, dr, pr, fed, retunes, strings.Join(rep.Faults, "\n"))
		}
		cl := []string{"autotune_cases"}
		if sameTotal {
			cl = append(cl, "same_total_different_split")
		}
		if retunes > 0 {
			cl = append(cl, "retuned")
		}
		rec.Add("n_pool_gets", int64(rep.Gets))
		rec.Case(hx.Hash64(ds, ps, dr, pr, lossEvery), retunes > 0, cl...)
		if rec.WantSample() {
			rec.Sample(map[string]any{"sender": []int{ds, ps}, "receiver": []int{dr, pr}, "packets": fed, "retunes": retunes, "pool_gets": rep.Gets})
		}
	})
}
