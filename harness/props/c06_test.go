package props

// C06: a datagram that fails the integrity check (CRC32 / AEAD tag) or is too
// short to carry one has no effect on any session's protocol state, FEC
// decoder state, the reader, or the listener's session table - apart from an
// error counter.

import (
	"encoding/binary"
	"fmt"
	"net"
	"reflect"
	"testing"

	kcp "github.com/xtaci/kcp-go/v5"
	"pgregory.net/rapid"
	"verif/harness/hx"
	"verif/harness/sim"
	"verif/harness/wire"
)

var c06Ciphers = []string{"aes-128", "aes-192", "aes-256", "sm4", "twofish", "3des", "cast5", "blowfish", "tea", "xtea", "salsa20", "xor", "none", "aes-128-gcm", "aes-256-gcm"}

// corrupt returns a corruption of the genuine datagram raw that the integrity
// check is guaranteed to catch, its class, and whether it is "too short".
func corrupt(t *rapid.T, c *wire.Crypto, raw []byte) (out []byte, class string, short bool) {
	minLen := c.HeaderSize() + c.TagSize()
	kind := rapid.IntRange(0, 6).Draw(t, "ckind")
	if kind == 0 {
		n := rapid.IntRange(0, minLen-1).Draw(t, "shortLen")
		if n <= len(raw) && rapid.Bool().Draw(t, "prefix") {
			return append([]byte{}, raw[:n]...), "too_short", true
		}
		return append([]byte{}, rapid.SliceOfN(rapid.Byte(), n, n).Draw(t, "shortRnd")...), "too_short", true // an empty datagram is legal UDP
	}
	if c.IsAEAD() {
		out = append([]byte(nil), raw...)
		switch kind {
		case 1: // truncation (still long enough to be checked)
			if len(out) > minLen {
				out = out[:rapid.IntRange(minLen, len(out)-1).Draw(t, "trunc")]
				return out, "aead_truncated", false
			}
		case 2: // extension
			for i, n := 0, rapid.IntRange(1, 16).Draw(t, "ext"); i < n && len(out) < 1500; i++ {
				out = append(out, byte(rapid.IntRange(0, 255).Draw(t, "extb")))
			}
			if len(out) > len(raw) {
				return out, "aead_extended", false
			}
		}
		for i, n := 0, rapid.IntRange(1, 5).Draw(t, "nflips"); i < n; i++ {
			out[rapid.IntRange(0, len(out)-1).Draw(t, "flipOff")] ^= 1 << uint(rapid.IntRange(0, 7).Draw(t, "flipBit"))
		}
		if string(out) == string(raw) { // flips cancelled each other
			out[0] ^= 1
		}
		return out, "aead_bitflips", false
	}
	// CRC ciphers: work on the plaintext nonce | crc | payload
	plain := make([]byte, len(raw))
	c.Stream(plain, raw, true)
	covered := plain[wire.NonceSize+wire.CRCSize:]
	switch {
	case kind <= 2 && len(covered) > 0: // error burst of <= 32 bits inside the CRC-covered bytes
		span := rapid.IntRange(1, 32).Draw(t, "burstBits")
		startBit := rapid.IntRange(0, len(covered)*8-1).Draw(t, "burstStart")
		first := true
		for b := 0; b < span && startBit+b < len(covered)*8; b++ {
			// the first bit of the burst is always flipped, the rest are drawn
			if first || rapid.Bool().Draw(t, "burstBit") {
				covered[(startBit+b)/8] ^= 1 << uint((startBit+b)%8)
			}
			first = false
		}
		return c.SealRaw(plain), "crc_burst_le_32_bits", false
	case kind <= 4: // any change to the stored CRC
		old := binary.LittleEndian.Uint32(plain[wire.NonceSize:])
		nv := old ^ uint32(rapid.Uint32Range(1, 0xffffffff).Draw(t, "crcXor"))
		class = "stored_crc_changed"
		// values a shortcut might treat specially: "no checksum" (0), all ones,
		// the complement, the byte-swapped value
		if sp := rapid.IntRange(0, 7).Draw(t, "crcSpecial"); sp < 4 {
			if v := [4]uint32{0, 0xffffffff, ^old, old<<24 | old>>24 | (old&0xff00)<<8 | (old>>8)&0xff00}[sp]; v != old {
				nv, class = v, "stored_crc_special_value"
				if len(covered) > 0 && rapid.Bool().Draw(t, "andPayload") {
					covered[rapid.IntRange(0, len(covered)-1).Draw(t, "payOff")] ^= byte(rapid.IntRange(1, 255).Draw(t, "payMask"))
				}
			}
		}
		binary.LittleEndian.PutUint32(plain[wire.NonceSize:], nv)
		return c.SealRaw(plain), class, false
	default: // ciphertext-level corruption, kept only if the independent CRC confirms a mismatch
		out = append([]byte(nil), raw...)
		if kind == 5 {
			for i, n := 0, rapid.IntRange(1, 8).Draw(t, "nflips"); i < n; i++ {
				out[rapid.IntRange(0, len(out)-1).Draw(t, "flipOff")] ^= byte(rapid.IntRange(1, 255).Draw(t, "flipMask"))
			}
		} else {
			n := rapid.IntRange(minLen, 1500).Draw(t, "rndLen")
			out = rapid.SliceOfN(rapid.Byte(), n, n).Draw(t, "rnd")
		}
		if _, _, err := c.Open(out); err != wire.ErrIntegrity {
			return nil, "discarded_checksum_happened_to_match", false
		}
		return out, "ciphertext_corruption", false
	}
}

func TestC06Session(t *testing.T) {
	rec := hx.NewRecorder(t)
	rapid.Check(t, func(rt *rapid.T) {
		cfg := drawPairCfg(rt, pairGenOpts{Ciphers: c06Ciphers})
		fs := sim.DrawFateScript(rt, sim.FateOpts{MaxExplicit: 8, MaxRegimes: 2, MaxRegLen: 80, MaxDelay: 400, MaxLossPm: 250})
		app := drawSessApps(rt, pairMSS(cfg), 15, 60_000)
		every := rapid.IntRange(1, 5).Draw(rt, "every")
		maxInj := rapid.IntRange(3, 30).Draw(rt, "maxInj")
		classes := map[string]int{}
		early := rapid.SampledFrom([]int{0, 0, 33, 40, 100}).Draw(rt, "earlyBurst")
		inj, inflight, strangerInj := 0, 0, 0
		viaSocket, emptyViaSocket := 0, 0
		rapid.SyncTest(rt, func(rt *rapid.T) {
			s := sim.NewSessSim(cfg.ClockOff, cfg.EntropySeed)
			p, err := sim.NewPair(s, cfg, app)
			if err != nil {
				rt.Fatalf("setup: %v", err)
			}
			defer p.Finish(nil)
			setPairLinks(s, p, fs)
			type cap struct {
				data      []byte
				deliverAt int64
			}
			var captured [2][]cap // genuine datagrams travelling towards end e
			s.OnSent = func(d *sim.Sent, from, to string, f *sim.Fate) error {
				e := 0
				if to == p.Addr[1].String() {
					e = 1
				}
				at := int64(-1)
				if f.Copies > 0 {
					at = s.Now() + int64(f.Delay[0])
				}
				captured[e] = append(captured[e], cap{append([]byte(nil), d.Data...), at})
				if len(captured[e]) > 48 {
					captured[e] = captured[e][1:]
				}
				return nil
			}
			stranger := &net.UDPAddr{IP: net.IPv4(10, 7, 7, 7), Port: 7}
			inject := func() {
				e := rapid.IntRange(0, 1).Draw(rt, "target")
				viaListener := e == 1 && p.L != nil
				if (!viaListener && p.Sess[e] == nil) || len(captured[e]) == 0 {
					return
				}
				pick := captured[e][rapid.IntRange(0, len(captured[e])-1).Draw(rt, "pick")]
				bad, class, short := corrupt(rt, p.Crypto, pick.data)
				classes[class]++
				if bad == nil {
					return
				}
				from := p.Addr[1-e]
				fromStranger := viaListener && rapid.IntRange(0, 2).Draw(rt, "stranger") == 0
				if fromStranger {
					from = stranger
					strangerInj++
				}
				s.Quiesce()
				var before [2]uint64
				for x := 0; x < 2; x++ {
					if p.Sess[x] != nil {
						before[x] = p.Sess[x].VerifDigest()
					}
				}
				var tblBefore map[string]uint32
				var backlogBefore int
				if p.L != nil {
					tblBefore, backlogBefore = p.L.VerifSessions()
				}
				snmpBefore := *kcp.DefaultSnmp.Copy()
				dgBefore, doneBefore := s.Datagrams, len(s.BlockedCalls())
				buf := append([]byte{}, bad...)
				if rapid.IntRange(0, 2).Draw(rt, "viaSocket") == 0 && (viaListener || !fromStranger) {
					// through the simulated socket and the library's own receive loop
					// (which sees what a socket reports for it: n bytes, also n == 0)
					s.Net.Deliver(p.Addr[e].String(), from, buf)
					viaSocket++
					if len(buf) == 0 {
						emptyViaSocket++
					}
				} else if viaListener {
					p.L.VerifPacketInput(buf, from)
				} else {
					p.Sess[e].VerifPacketInput(buf)
				}
				s.Quiesce()
				inj++
				if pick.deliverAt > s.Now() {
					inflight++
				}
				what := fmt.Sprintf("corrupted datagram (%s, %d bytes, towards end %d, via listener=%v, from stranger=%v)", class, len(bad), e, viaListener, fromStranger)
				for x := 0; x < 2; x++ {
					if p.Sess[x] != nil && p.Sess[x].VerifDigest() != before[x] {
						s.Fail("%s changed the protocol / FEC / reader state of the session at end %d", what, x)
					}
				}
				if p.L != nil {
					tbl, backlog := p.L.VerifSessions()
					if !reflect.DeepEqual(tbl, tblBefore) || backlog != backlogBefore {
						s.Fail("%s changed the listener's session table: %v/%d -> %v/%d", what, tblBefore, backlogBefore, tbl, backlog)
					}
				}
				snmpAfter := *kcp.DefaultSnmp.Copy()
				want := snmpBefore
				if !short {
					want.InCsumErrors++
				}
				if snmpAfter != want {
					s.Fail("%s changed counters other than the checksum error counter: before %+v after %+v", what, snmpBefore, snmpAfter)
				}
				if s.Datagrams != dgBefore {
					s.Fail("%s made the session emit %d datagram(s)", what, s.Datagrams-dgBefore)
				}
				if n := len(s.BlockedCalls()); n != doneBefore {
					s.Fail("%s woke a blocked Read/Write (%d blocked before, %d after)", what, doneBefore, n)
				}
			}
			// before the first genuine datagram has arrived: a burst of datagrams
			// that fail the check, from the peer's address, at the dialled end (a
			// session in that phase owes them exactly what an established one owes:
			// nothing)
			if early > 0 && p.Sess[0] != nil {
				digest := p.Sess[0].VerifDigest()
				for i := 0; i < early; i++ {
					junk := make([]byte, 60+i%7)
					for j := range junk {
						junk[j] = byte(hx.Hash64(cfg.EntropySeed, i, j))
					}
					s.Net.Deliver(p.Addr[0].String(), p.Addr[1], junk)
				}
				s.Quiesce()
				if p.Sess[0].VerifDigest() != digest {
					s.Fail("%d datagrams failing the integrity check, delivered before the first genuine one, changed the state of the dialled session", early)
				}
			}
			reads := 0
			p.OnRead = func(r, n int, err error) {
				reads++
				if reads%every == 0 && inj < maxInj {
					inject()
				}
			}
			err = p.Run(fs.EndTime()+600_000, false)
			for i := 0; i < 3 && inj < maxInj && err == nil; i++ {
				inject()
				err = s.Err()
			}
			if err != nil {
				rt.Fatalf("C06: %v\ncase: %+v", err, describePair(cfg, fs, app))
			}
		})
		cl := []string{"cipher_" + cfg.Cipher}
		for k, v := range classes {
			if v > 0 {
				cl = append(cl, k)
			}
		}
		if cfg.Listener {
			cl = append(cl, "listener_path")
		}
		if strangerInj > 0 {
			cl = append(cl, "from_never_seen_address")
		}
		if viaSocket > 0 {
			cl = append(cl, "through_the_socket_and_receive_loop")
		}
		if early > 0 {
			cl = append(cl, "burst_before_the_first_genuine_datagram")
		}
		if emptyViaSocket > 0 {
			cl = append(cl, "empty_datagram_through_the_socket")
		}
		if cfg.FEC[0][0] > 0 {
			cl = append(cl, "fec_on")
		}
		rec.Add("n_corrupted_datagrams_injected", int64(inj))
		rec.Add("n_corruptions_of_datagrams_still_in_flight", int64(inflight))
		rec.Case(hx.Hash64(describePair(cfg, fs, app), every, maxInj), inflight > 0, cl...)
		if rec.WantSample() {
			d := describePair(cfg, fs, app)
			d["corruptions"] = classes
			d["injected"] = inj
			d["of_datagrams_in_flight"] = inflight
			rec.Sample(d)
		}
	})
}
