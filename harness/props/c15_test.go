package props

// C15: closing sessions, their listener and the transport terminates every
// goroutine and every pending scheduled callback, under every interleaving of
// Close with in-flight traffic; every pooled buffer is recycled at most once
// per acquisition and never touched after it has been recycled.

import (
	"bytes"
	"fmt"
	"net"
	"strings"
	"testing"
	"time"

	kcp "github.com/xtaci/kcp-go/v5"
	"pgregory.net/rapid"
	"verif/harness/hx"
	"verif/harness/sim"
)

func TestC15Close(t *testing.T) {
	rec := hx.NewRecorder(t)
	rapid.Check(t, func(rt *rapid.T) {
		cfg := drawPairCfg(rt, pairGenOpts{})
		fs := sim.DrawFateScript(rt, sim.FateOpts{MaxExplicit: 10, MaxRegimes: 3, MaxRegLen: 100, MaxDelay: 800, MaxOutageMs: 5000, MaxOutages: 1})
		app := drawSessApps(rt, pairMSS(cfg), 20, 80_000)
		// when to start closing: after k completed reads, or at a time, whichever comes first
		closeAfterReads := rapid.SampledFrom([]int{0, 1, 2, 5, 20, 100000}).Draw(rt, "closeAfterReads")
		closeAt := int64(rapid.SampledFrom([]int{0, 5, 30, 150, 1000, 20000}).Draw(rt, "closeAt"))
		order := rapid.Permutation([]int{0, 1, 2, 3, 4}).Draw(rt, "closeOrder")
		gaps := rapid.SliceOfN(rapid.SampledFrom([]int{0, 0, 1, 15, 200}), 5, 5).Draw(rt, "closeGaps")
		extraPeers := 0
		pollAccepts, polled := 0, 0
		if cfg.Listener {
			extraPeers = rapid.IntRange(0, 3).Draw(rt, "unacceptedPeers")
			pollAccepts = rapid.SampledFrom([]int{0, 0, 1, 2, 4}).Draw(rt, "pollAccepts")
		}
		stallReader := rapid.IntRange(0, 3).Draw(rt, "stallReader") == 0
		if stallReader {
			app[0].Pauses = []sim.Pause{{AfterBytes: 0, Ms: 1 << 40}} // full queues at close time
		}
		writeErrAt := rapid.SampledFrom([]int{-1, -1, 0, 1}).Draw(rt, "socketWriteErrorAtEnd") // the transport starts failing just before the closes
		poolMode := rapid.SampledFrom([]int{kcp.VerifPoolOff, kcp.VerifPoolQuarantine, kcp.VerifPoolQuarantine, kcp.VerifPoolLIFO}).Draw(rt, "poolMode")
		var leaks []string
		var pool kcp.VerifPoolStats
		pendingTasks, blocked, midTransfer, blockedAtClose := 0, 0, false, 0
		rapid.SyncTest(rt, func(rt *rapid.T) {
			kcp.VerifPoolMode(poolMode, 20000, false)
			defer kcp.VerifPoolMode(kcp.VerifPoolOff, 0, false)
			s := sim.NewSessSim(cfg.ClockOff, cfg.EntropySeed)
			p, err := sim.NewPair(s, cfg, app)
			if err != nil {
				rt.Fatalf("setup: %v", err)
			}
			setPairLinks(s, p, fs)
			// peers the application never accepts; they connect once the pair's own
			// session has been accepted (so that Accept returns the pair's session)
			var extras []*kcp.UDPSession
			var polledSess []*kcp.UDPSession // sessions handed out by the polling Accept calls
			var extraConns []*sim.PConn
			makeExtras := func() {
				for i := len(extras); i < extraPeers; i++ {
					a := &net.UDPAddr{IP: net.IPv4(10, 0, 5, byte(i+1)), Port: 5000 + i}
					c := s.Net.Listen(a)
					blk, _ := sim.NewBlockCrypt(cfg.Cipher, cfg.Key)
					x, _ := kcp.NewConn3(uint32(900+i), p.Addr[1], blk, cfg.FEC[0][0], cfg.FEC[0][1], c)
					x.Write([]byte("hello"))
					extras = append(extras, x)
					extraConns = append(extraConns, c)
				}
			}
			defer func() {
				// whatever happens, leave the bubble clean
				p.Finish(nil)
				for _, x := range append(extras, polledSess...) {
					x.Close()
				}
				for _, c := range extraConns {
					c.Close()
				}
				if p.L != nil {
					tbl, _ := p.L.VerifSessions()
					for a := range tbl {
						if x := p.L.VerifSession(a); x != nil {
							x.Close()
						}
					}
				}
				s.Drain(10_000)
			}()
			reads := 0
			p.OnRead = func(r, n int, err error) { reads++ }
			s.WakeAt(closeAt)
			// run until the close point
			for s.Err() == nil {
				s.Quiesce()
				if p.Pump() {
					continue
				}
				if p.Sess[1] != nil && len(extras) < extraPeers {
					makeExtras()
					continue
				}
				if reads >= closeAfterReads || s.Now() >= closeAt || p.Complete() {
					break
				}
				if !s.Step(closeAt) {
					break
				}
			}
			if err := s.Err(); err != nil {
				rt.Fatalf("C15: failure before the close point: %v", err)
			}
			makeExtras()
			s.Quiesce()
			// an application that polls: Accept with a deadline that has already
			// passed while peers are waiting. Each call may hand out a session
			// (ours to close from then on) or time out - but a session it does not
			// hand out must stay where Listener.Close will find it
			if p.L != nil && pollAccepts > 0 {
				p.L.SetReadDeadline(s.Start.Add(time.Duration(s.Now()-1) * time.Millisecond))
				for i := 0; i < pollAccepts; i++ {
					c := s.Go("Accept(poll)", func() (int, error, any) { x, err := p.L.AcceptKCP(); return 0, err, x })
					s.Quiesce()
					if c.Done() && c.Err == nil {
						if x, ok := c.Val.(*kcp.UDPSession); ok && x != nil {
							polledSess = append(polledSess, x)
							polled++
						}
					}
				}
				p.L.SetReadDeadline(time.Time{})
			}
			midTransfer = !p.Complete()
			blockedAtClose = len(s.BlockedCalls())
			if writeErrAt >= 0 {
				p.Conn[writeErrAt].InjectWriteError(errInjectedWrite)
				if g := rapid.SampledFrom([]int{0, 1, 25, 250}).Draw(rt, "afterWriteErrorMs"); g > 0 {
					s.SleepTo(s.Now() + int64(g)) // some transmissions fail and record the error
				}
			}
			// the accepted session may not exist yet: then the listener still owns whatever it created
			for i, o := range order {
				p.Close([]int{o})
				if g := int64(gaps[i]); g > 0 {
					s.SleepTo(s.Now() + g)
				}
			}
			p.CloseLateAccept()
			for _, x := range append(extras, polledSess...) {
				x.Close()
			}
			for _, c := range extraConns {
				c.Close()
			}
			s.Drain(600_000)
			pendingTasks = s.PendingTasks()
			blocked = len(s.BlockedCalls())
			leaks = sim.BubbleGoroutines()
			pool = kcp.VerifPoolReport()
		})
		what := fmt.Sprintf("close order %v (0 client session, 1 server session, 2 listener, 3 client socket, 4 server socket), gaps %v ms, %d peer(s) never accepted\ncase: %+v", order, gaps, extraPeers, describePair(cfg, fs, app))
		if len(leaks) > 0 {
			rt.Fatalf("C15: %d goroutine(s) of the library still alive 10 min after everything was closed:\n  %s\n%s", len(leaks), strings.Join(leaks, "\n  "), what)
		}
		if pendingTasks > 0 {
			rt.Fatalf("C15: %d scheduled callback(s) still pending 10 min after everything was closed\n%s", pendingTasks, what)
		}
		if blocked > 0 {
			rt.Fatalf("C15: %d application call(s) still blocked after Close\n%s", blocked, what)
		}
		if len(pool.Faults) > 0 {
			rt.Fatalf("C15 (pool sanitizer): %s\n%s", strings.Join(pool.Faults, "\n"), what)
		}
		cl := []string{}
		if midTransfer {
			cl = append(cl, "closed_mid_transfer")
		}
		if blockedAtClose > 0 {
			cl = append(cl, "closed_with_blocked_callers")
		}
		if pollAccepts > 0 {
			cl = append(cl, "accept_polled_with_an_expired_deadline")
		}
		if extraPeers > 0 {
			cl = append(cl, "closed_with_unaccepted_sessions")
		}
		if stallReader {
			cl = append(cl, "closed_with_full_queues")
		}
		if writeErrAt >= 0 {
			cl = append(cl, "socket_write_error_before_close")
		}
		if cfg.Listener {
			cl = append(cl, "via_listener")
		}
		if poolMode != kcp.VerifPoolOff {
			cl = append(cl, "pool_sanitizer_on")
			rec.Add("n_pool_gets", int64(pool.Gets))
			rec.Add("n_pool_puts", int64(pool.Puts))
		}
		rec.Case(hx.Hash64(describePair(cfg, fs, app), order, gaps, closeAfterReads, closeAt, extraPeers), midTransfer || blockedAtClose > 0 || extraPeers > 0, cl...)
		if rec.WantSample() {
			d := describePair(cfg, fs, app)
			d["close_order"] = order
			d["close_gaps_ms"] = gaps
			d["unaccepted_peers"] = extraPeers
			rec.Sample(d)
		}
	})
}

// TestC15Pool: complete lossy FEC transfers under the pool sanitizer.
// Quarantine: a double Put or a write into a recycled buffer is reported by
// the sanitizer. LIFO: the buffer recycled last is handed out next, so a stale
// owner's data bleeds into the next packet - visible to C01's content oracle
// and to the independent wire decoder.
func TestC15Pool(t *testing.T) {
	rec := hx.NewRecorder(t)
	rapid.Check(t, func(rt *rapid.T) {
		cfg := drawPairCfg(rt, pairGenOpts{})
		fs := sim.DrawFateScript(rt, c01FateOpts)
		app := drawSessApps(rt, pairMSS(cfg), 25, 100_000)
		mode := rapid.SampledFrom([]int{kcp.VerifPoolQuarantine, kcp.VerifPoolLIFO}).Draw(rt, "poolMode")
		// SetDUP (a switch kept for testing): every packet goes out dup+1 times, and
		// every copy's buffer has one owner like any other
		dup, dupCopies := 0, 0
		if !cfg.Listener && rapid.IntRange(0, 3).Draw(rt, "setdup") == 0 {
			dup = rapid.IntRange(1, 3).Draw(rt, "dup")
		}
		var pool kcp.VerifPoolStats
		var d snmpDelta
		rapid.SyncTest(rt, func(rt *rapid.T) {
			kcp.VerifPoolMode(mode, 50000, false)
			defer kcp.VerifPoolMode(kcp.VerifPoolOff, 0, false)
			before := kcp.DefaultSnmp.Copy()
			s := sim.NewSessSim(cfg.ClockOff, cfg.EntropySeed)
			p, err := sim.NewPair(s, cfg, app)
			if err != nil {
				rt.Fatalf("setup: %v", err)
			}
			setPairLinks(s, p, fs)
			var obs [2]*wireObserver
			for e := 0; e < 2; e++ {
				obs[e] = newWireObserver(p.Crypto, cfg.FEC[e], cfg.Conv, cfg.StreamID[e], cfg.Opts[e].Stream)
			}
			var lastDg [2][]byte
			var copies [2]int
			if dup > 0 {
				for e := 0; e < 2; e++ {
					if p.Sess[e] != nil {
						p.Sess[e].SetDUP(dup)
					}
				}
			}
			s.OnSent = func(dg *sim.Sent, from, to string, f *sim.Fate) error {
				e := 0
				if from == p.Addr[1].String() {
					e = 1
				}
				if dup > 0 && copies[e] < dup && bytes.Equal(dg.Data, lastDg[e]) {
					copies[e]++
					dupCopies++
					return nil
				}
				lastDg[e], copies[e] = append(lastDg[e][:0], dg.Data...), 0
				return obs[e].Observe(dg.Data)
			}
			err = p.Run(fs.EndTime()+600_000, false)
			p.Finish(nil)
			// calls on closed sessions give their buffers back exactly once, too
			pokeClosedOOB(s, []*kcp.UDPSession{p.Sess[0], p.Sess[1]}, 4)
			pool = kcp.VerifPoolReport()
			d = snmpSince(before)
			if err != nil {
				rt.Fatalf("C15 (pool sanitizer mode %d): %v\ncase: %+v", mode, err, describePair(cfg, fs, app))
			}
		})
		if len(pool.Faults) > 0 {
			rt.Fatalf("C15 (pool sanitizer mode %d): %s\ncase: %+v", mode, strings.Join(pool.Faults, "\n"), describePair(cfg, fs, app))
		}
		cl := []string{fmt.Sprintf("pool_mode_%d", mode)}
		if d.FECRecovered > 0 {
			cl = append(cl, "fec_recovery")
		}
		if d.Retrans > 0 {
			cl = append(cl, "retransmission")
		}
		if dupCopies > 0 {
			cl = append(cl, fmt.Sprintf("setdup_%d_copies_on_the_wire", dup))
		}
		rec.Add("n_pool_gets", int64(pool.Gets))
		rec.Add("n_pool_puts", int64(pool.Puts))
		rec.Case(hx.Hash64(describePair(cfg, fs, app), mode, dup), pool.Gets >= 1000 && d.Retrans > 0, cl...)
		if rec.WantSample() {
			dd := describePair(cfg, fs, app)
			dd["pool"] = map[string]any{"mode": mode, "gets": pool.Gets, "puts": pool.Puts, "max_owned": pool.MaxOwned}
			rec.Sample(dd)
		}
	})
}
