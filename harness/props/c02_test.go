package props

// C02: after any finite fault history, once the network is fair again
// everything written is delivered and both backlogs drain, within a bound
// derived from the retransmission timers (bounded liveness in virtual time).

import (
	"fmt"
	"testing"

	kcp "github.com/xtaci/kcp-go/v5"
	"pgregory.net/rapid"
	"verif/harness/hx"
	"verif/harness/sim"
)

// c02Bound is the virtual time by which a healed connection must have
// drained: twice the longest silence the script imposed (per-segment RTO
// back-off grows by at most rx_rto per retry, so the first retransmission
// after an outage of length L comes within 2L), the probe ceiling, and one
// round trip per outstanding segment (the slowest legal pace: cwnd=1).
func c02Bound(cfg sim.CoreCfg, fs *sim.FateScript, app [2]sim.AppScript, scriptEnd int64) int64 {
	segs := int64(0)
	for w := 0; w < 2; w++ {
		mss := int64(mssOf(cfg.EP[w]))
		for _, n := range app[w].Writes {
			segs += (int64(n) + mss - 1) / mss
		}
		for _, g := range app[w].GapMs {
			scriptEnd += int64(g)
		}
	}
	rtt := int64(fs.BaseDelay[0]+fs.BaseDelay[1]) + int64(cfg.EP[0].Interval+cfg.EP[1].Interval) + 100
	return 2*scriptEnd + 180_000 + (segs+10)*rtt*3
}

func TestC02CoreSampled(t *testing.T) {
	rec := hx.NewRecorder(t)
	opts := sim.FateOpts{MaxExplicit: 30, MaxRegimes: 4, MaxRegLen: 200, MaxDelay: 2000, MaxOutageMs: 600_000, MaxOutages: 3}
	rapid.Check(t, func(rt *rapid.T) {
		cfg := sim.DrawCoreCfg(rt)
		fs := sim.DrawFateScript(rt, opts)
		app := drawCoreApps(rt, cfg, 25, 60_000)
		retunes := drawCoreRetunes(rt, cfg)
		// a tuning call at a moment the state chooses: the receive window is
		// enlarged just when the delivery queue is full and in-order segments
		// wait behind it (the application noticed it is falling behind)
		growMul := rapid.SampledFrom([]int{0, 0, 2, 8}).Draw(rt, "growWhenFull")
		grown := 0
		var st sim.CoreStats
		rapid.SyncTest(rt, func(rt *rapid.T) {
			s := sim.NewCoreSim(cfg, fs, app)
			s.Ops = coreRetuneOps(retunes)
			if growMul > 0 {
				var done [2]bool
				s.OnStep = func(what string, ep int) error {
					for e := 0; e < 2; e++ {
						if done[e] {
							continue
						}
						if v := s.K[e].VerifState(false); v.RcvQueue >= int(v.RcvWnd) && v.RcvBuf > 0 {
							s.K[e].WndSize(int(v.SndWnd), int(v.RcvWnd)*growMul)
							done[e] = true
							grown++
						}
					}
					return nil
				}
			}
			err := runUntilDrained(s, cfg, fs, app)
			st = s.Stats
			if err == errScriptUnfinished {
				rec.Class("script_unfinished_inconclusive", 1)
				err = nil
			}
			if err != nil {
				rt.Fatalf("C02 (raw core): %v\ntuning calls in mid-connection: %+v; receive window x%d when the delivery queue was full (%d time(s))\ncase: %+v", err, retunes, growMul, grown, describeCore(cfg, fs, app))
			}
		})
		cl := coreClasses(&st)
		if st.LostPush > 0 {
			cl = append(cl, "lost_push")
		}
		if st.LostAck > 0 {
			cl = append(cl, "lost_ack")
		}
		if len(fs.Outages) > 0 {
			cl = append(cl, "timed_outage")
		}
		for i := 0; i < 2; i++ {
			if cfg.EP[i].Drive == 1 {
				cl = append(cl, "drive_update_check")
				break
			}
		}
		if grown > 0 {
			cl = append(cl, "receive_window_grown_while_queue_full")
		}
		nontrivial := (st.LostPush > 0 && st.LostAck > 0) || len(fs.Outages) > 0
		rec.Case(hx.Hash64(cfg, fs.Describe(), app, retunes, growMul), nontrivial, cl...)
		if rec.WantSample() {
			d := describeCore(cfg, fs, app)
			d["stats"] = st
			rec.Sample(d)
		}
	})
}

// ---------------------------------------------------------------- exhaustive small-K

type c02Cfg struct {
	Name   string
	Cfg    sim.CoreCfg
	Writes [2][]int // in units: n>0 bytes, n<0 = -n segments (x mss) plus one byte
}

func c02Configs() []c02Cfg {
	ep := func(mtu, snd, rcv, nd, iv, rs, nc int, and bool, drive int, wf bool) sim.EPConfig {
		return sim.EPConfig{MTU: mtu, SndWnd: snd, RcvWnd: rcv, NoDelay: nd, Interval: iv, Resend: rs, NC: nc, AckNoDelay: and, Drive: drive, WriteFlush: wf}
	}
	mk := func(name string, stream bool, a, b sim.EPConfig, wa, wb []int) c02Cfg {
		return c02Cfg{name, sim.CoreCfg{Conv: 0x11223344, Stream: stream, EP: [2]sim.EPConfig{a, b}, StreamID: [2]uint32{7, 9}}, [2][]int{wa, wb}}
	}
	return []c02Cfg{
		mk("msg-default-w32", false, ep(0, 32, 32, 0, 100, 0, 0, false, 0, true), ep(0, 32, 32, 0, 100, 0, 0, false, 0, true), []int{1, -1, -3}, []int{-2}),
		mk("stream-fast-nc-w4", true, ep(0, 4, 4, 1, 10, 2, 1, false, 0, true), ep(0, 4, 4, 1, 10, 2, 1, false, 0, true), []int{-2, 5, -3}, []int{10}),
		mk("msg-updatecheck-w2", false, ep(0, 2, 2, 1, 20, 1, 0, false, 1, false), ep(0, 2, 2, 1, 20, 1, 0, false, 1, false), []int{-1, 3, -1}, []int{7, 7}),
		mk("stream-w1-acknodelay", true, ep(0, 1, 1, 0, 40, 0, 0, true, 0, true), ep(0, 1, 1, 0, 40, 0, 0, true, 0, true), []int{-3}, []int{1}),
		mk("msg-asym-updatecheck", false, ep(0, 8, 3, 0, 100, 2, 1, false, 1, false), ep(576, 3, 8, 1, 30, 0, 0, true, 0, true), []int{-2, -2, 9}, []int{-1}),
		mk("stream-mtu100-writedelay", true, ep(100, 128, 128, 1, 10, 0, 0, false, 0, false), ep(100, 128, 128, 1, 10, 0, 0, false, 0, false), []int{-7, 3}, []int{}),
		// thorough adds:
		mk("msg-w3-resend1-nc0", false, ep(0, 3, 3, 1, 10, 1, 0, false, 0, true), ep(0, 3, 3, 1, 10, 1, 0, true, 0, true), []int{-2, -1, 4}, []int{4, -1}),
		mk("stream-mixed-drive", true, ep(256, 5, 2, 0, 50, 5, 0, false, 1, false), ep(1000, 2, 5, 0, 200, 0, 1, false, 0, false), []int{-6}, []int{-2}),
		mk("msg-w1-w1", false, ep(0, 1, 1, 1, 10, 2, 0, false, 0, true), ep(0, 1, 1, 1, 10, 2, 0, false, 0, true), []int{5, 6, 7}, []int{8, 9}),
		mk("stream-interval200-resend5", true, ep(0, 16, 16, 0, 200, 5, 0, false, 0, true), ep(0, 16, 16, 0, 200, 5, 0, false, 0, true), []int{-4, 1, 1}, []int{-1}),
		mk("msg-nc-both-updatecheck", false, ep(1500, 32, 32, 1, 10, 2, 1, true, 1, false), ep(1500, 32, 32, 1, 10, 2, 1, true, 1, false), []int{-3, -1}, []int{-1, 2}),
		mk("stream-tiny-mtu50", true, ep(50, 4, 4, 0, 20, 0, 0, false, 0, true), ep(50, 4, 4, 0, 20, 0, 0, false, 0, true), []int{60, 1, 30}, []int{5}),
	}
}

var c02FateMenu = [4]sim.Fate{
	{Copies: 1, Delay: [3]int32{5}},
	{},
	{Copies: 2, Delay: [3]int32{5, 35}},
	{Copies: 1, Delay: [3]int32{400}},
}

func c02Run(c c02Cfg, assign []int) (st sim.CoreStats, err error) {
	var app [2]sim.AppScript
	for w := 0; w < 2; w++ {
		mss := mssOf(c.Cfg.EP[w])
		for _, n := range c.Writes[w] {
			if n < 0 {
				n = -n*mss + 1
				if !c.Cfg.Stream { // a message must fit the peer's receive window
					n = min(n, c.Cfg.EP[1-w].RcvWnd*mss)
				}
			}
			app[w].Writes = append(app[w].Writes, n)
		}
	}
	fs := &sim.FateScript{BaseDelay: [2]int32{5, 5}}
	s := sim.NewCoreSim(c.Cfg, fs, app)
	g := 0
	s.Intercept = func(e *sim.Emitted) *sim.Fate {
		if g < len(assign) {
			f := c02FateMenu[assign[g]]
			g++
			return &f
		}
		return nil
	}
	bound := 1000 + c02Bound(c.Cfg, fs, app, 1000)
	err = s.Run(bound)
	st = s.Stats
	if err == nil && !st.Done {
		a0, r0 := s.Progress(0)
		a1, r1 := s.Progress(1)
		err = fmt.Errorf("connection did not drain within %d ms of virtual time: A->B accepted %d read %d, B->A accepted %d read %d; WaitSnd A=%d B=%d; A=%+v B=%+v",
			bound, a0, r0, a1, r1, s.K[0].WaitSnd(), s.K[1].WaitSnd(), s.K[0].VerifState(true), s.K[1].VerifState(true))
	}
	if err == nil && g < len(assign) {
		err = fmt.Errorf("harness: only %d datagrams emitted, fate vector has %d entries", g, len(assign))
	}
	return
}

func TestC02CoreExhaustive(t *testing.T) {
	rec := hx.NewRecorder(t)
	cfgs := c02Configs()
	var rp struct {
		Config string `json:"config"`
		Assign []int  `json:"assign"`
	}
	if hx.ReplayFile(&rp) {
		for _, c := range cfgs {
			if c.Name == rp.Config {
				bubble(t, func() {
					if _, err := c02Run(c, rp.Assign); err != nil {
						t.Fatalf("replay %s %v: %v", rp.Config, rp.Assign, err)
					}
				})
			}
		}
		return
	}
	K := hx.EnvInt("C02_K", 6)
	ncfg := min(hx.EnvInt("C02_NCFG", 6), len(cfgs))
	shard, nshards := hx.Shard()
	total := 1
	for i := 0; i < K; i++ {
		total *= 4
	}
	var evals, nontriv int64
	classes := map[string]int64{}
	bubble(t, func() {
		assign := make([]int, K)
		for ci := 0; ci < ncfg; ci++ {
			c := cfgs[ci]
			for v := shard; v < total; v += nshards {
				x := v
				for i := 0; i < K; i++ {
					assign[i] = x % 4
					x /= 4
				}
				st, err := c02Run(c, assign)
				evals++
				if err != nil {
					hx.Fail(t, map[string]any{"config": c.Name, "assign": append([]int(nil), assign...)}, "C02 exhaustive: config %s, fates of the first %d datagrams %v (0=deliver 1=drop 2=duplicate 3=delay 400ms): %v", c.Name, K, assign, err)
				}
				if st.LostPush > 0 && st.LostAck > 0 {
					nontriv++
				}
				if st.LostPush > 0 {
					classes["lost_push"]++
				}
				if st.LostAck > 0 {
					classes["lost_ack"]++
				}
				if st.Retrans[0]+st.Retrans[1] > 0 {
					classes["retransmission"]++
				}
				if st.OutOfOrder[0]+st.OutOfOrder[1] > 0 {
					classes["out_of_order_into_heap"]++
				}
				if v == shard && rec.WantSample() {
					rec.Sample(map[string]any{"config": c.Name, "cfg": c.Cfg, "writes": c.Writes, "fates_of_first_K": append([]int(nil), assign...), "stats": st})
				}
			}
		}
	})
	rec.Bulk(evals, nontriv)
	for k, v := range classes {
		rec.Class(k, v)
	}
	rec.Class("exhaustive_cases", evals)
	rec.Exhaustive = true
	rec.Set("K", K)
	rec.Set("configs", ncfg)
	rec.Set("fate_menu", []string{"deliver after 5ms", "drop", "duplicate (5ms, 35ms)", "delay 400ms (past the following ones)"})
}

var errScriptUnfinished = fmt.Errorf("fault script not used up after 6 h of virtual time")

// runUntilDrained is the bounded-liveness oracle of C02 for a CoreSim.
func runUntilDrained(s *sim.CoreSim, cfg sim.CoreCfg, fs *sim.FateScript, app [2]sim.AppScript) error {
	return runUntilDrainedAfter(s, cfg, fs, app, 0)
}

// coreAllowance is how long a healed connection may go without any progress
// before it counts as wedged. On a fair network the oldest outstanding segment
// always fits the peer's window, so within its own retransmission timeout
// (which grows with every earlier loss and has no cap of its own) plus a round
// trip either the receiver advances or the acknowledgement returns; zero-window
// probing adds its 120 s ceiling (x1.5 back-off step). Twice that, plus slack.
func coreAllowance(s *sim.CoreSim, cfg sim.CoreCfg, fs *sim.FateScript) int64 {
	var maxRto int64 = 200
	for i := 0; i < 2; i++ {
		st := s.K[i].VerifState(true)
		maxRto = max(maxRto, int64(st.RxRto))
		for _, r := range st.SndBufRto {
			maxRto = max(maxRto, int64(r))
		}
	}
	rtt := int64(fs.BaseDelay[0]+fs.BaseDelay[1]) + int64(cfg.EP[0].Interval+cfg.EP[1].Interval) + 10_000 // the interval may be re-tuned up to 5 s at each end
	return 2*(maxRto+60_000) + 2*180_000 + 4*rtt + 10_000
}

type coreProgress struct {
	acc, rcv [2]int64
	una      [2]uint32
	wait     [2]int
	rcvNxt   [2]uint32
}

func coreSignature(s *sim.CoreSim) (p coreProgress) {
	for i := 0; i < 2; i++ {
		p.acc[i], p.rcv[i] = s.Progress(i)
		st := s.K[i].VerifState(false)
		p.una[i], p.rcvNxt[i], p.wait[i] = st.SndUna, st.RcvNxt, st.SndQueue+st.SndBuf
	}
	return
}

// runUntilDrainedAfter runs the simulation to the end of the faults (fault
// script used up, outages / stalls / drop windows over at faultsEnd), then
// demands PROGRESS: the connection is wedged when nothing (bytes read, snd_una,
// rcv_nxt, backlog) has moved for longer than coreAllowance. A fixed total time
// would be wrong: a sender that over-ran a 1-segment window before it was told
// recovers two segments per ever-growing RTO round - slow, not stuck.
func runUntilDrainedAfter(s *sim.CoreSim, cfg sim.CoreCfg, fs *sim.FateScript, app [2]sim.AppScript, faultsEnd int64) error {
	scriptDone := func() bool {
		return s.Stats.Emitted[0] >= fs.Len(0) && s.Stats.Emitted[1] >= fs.Len(1) && s.Now() >= max(fs.EndTime(), faultsEnd)
	}
	err := s.Run(max(1_000, faultsEnd, fs.EndTime()))
	for err == nil && !s.Stats.Done && !scriptDone() && s.Now() < 6*3600_000 {
		// retransmission back-off can stretch a script counted in datagrams over hours
		err = s.Run(s.Now() + 300_000)
	}
	if err != nil || s.Stats.Done {
		return err
	}
	if !scriptDone() {
		return errScriptUnfinished // the premise (faults over) was never met
	}
	healed := s.Now()
	last, lastAt := coreSignature(s), s.Now()
	for err == nil && !s.Stats.Done {
		err = s.Run(s.Now() + 20_000)
		// a reader that is stalled right now is a fault in progress (a scripted
		// stall begins whenever its byte count is reached, however late)
		for i := 0; i < 2; i++ {
			if u := s.ReaderPausedUntil(i); u > s.Now() {
				lastAt = max(lastAt, s.Now())
			}
		}
		if sig := coreSignature(s); sig != last {
			last, lastAt = sig, s.Now()
			continue
		}
		if allow := coreAllowance(s, cfg, fs); s.Now()-lastAt > allow {
			a0, r0 := s.Progress(0)
			a1, r1 := s.Progress(1)
			return fmt.Errorf("connection wedged: faults over since %d ms, no progress of any kind since %d ms (now %d ms, allowance %d ms); A->B accepted %d read %d, B->A accepted %d read %d; WaitSnd A=%d B=%d; state A=%+v B=%+v",
				healed, lastAt, s.Now(), allow, a0, r0, a1, r1, s.K[0].WaitSnd(), s.K[1].WaitSnd(), s.K[0].VerifState(true), s.K[1].VerifState(true))
		}
		if s.Now()-healed > 48*3600_000 {
			return errScriptUnfinished // still crawling after two days of virtual time: says nothing
		}
	}
	return err
}

// TestC02Session: the same bounded-liveness property through real sessions
// (scheduler-driven update, post-processing goroutine, FEC and cipher
// framing, write-delay and ack-no-delay switches, listener or dialled server
// end): after any fault script, with readers that keep reading, everything
// written is read and both send backlogs return to zero. Progress-based
// oracle (see runPairUntilComplete); afterwards the backlogs must drain too.
var errC02Transient = fmt.Errorf("sendto: network is unreachable (injected, transient)")

func TestC02Session(t *testing.T) {
	rec := hx.NewRecorder(t)
	opts := sim.FateOpts{MaxExplicit: 20, MaxRegimes: 3, MaxRegLen: 120, MaxDelay: 1500, MaxOutageMs: 400_000, MaxOutages: 2}
	rapid.Check(t, func(rt *rapid.T) {
		cfg := drawPairCfg(rt, pairGenOpts{})
		fs := sim.DrawFateScript(rt, opts)
		app := drawSessApps(rt, pairMSS(cfg), 20, 80_000)
		if cfg.Listener && len(app[0].Writes) == 0 {
			app[0].Writes = []int{1} // a listener only learns of a peer that speaks first
		}
		retunes := drawRetunes(rt, cfg)
		// a socket whose sendto fails a few times and then works again (a route
		// that disappears for a moment): the library refuses further Writes at
		// that end from then on, but what it had accepted must still arrive
		wfAt, wfEnd, wfN := int64(-1), 0, 0
		if rapid.IntRange(0, 2).Draw(rt, "writeFault") == 0 {
			wfAt = int64(rapid.SampledFrom([]int{0, 15, 120, 900, 5000}).Draw(rt, "writeFaultAt"))
			wfEnd = rapid.IntRange(0, 1).Draw(rt, "writeFaultEnd")
			wfN = rapid.SampledFrom([]int{1, 1, 2, 6}).Draw(rt, "writeFaultCalls")
		}
		var d snmpDelta
		outageHit, drained := false, false
		retuned := 0
		wfHit, wfCut := false, false
		rapid.SyncTest(rt, func(rt *rapid.T) {
			before := kcp.DefaultSnmp.Copy()
			s := sim.NewSessSim(cfg.ClockOff, cfg.EntropySeed)
			p, err := sim.NewPair(s, cfg, app)
			if err != nil {
				rt.Fatalf("setup: %v", err)
			}
			defer p.Finish(nil)
			setPairLinks(s, p, fs)
			ivSum := cfg.Opts[0].Interval + cfg.Opts[1].Interval + 10_000 // the interval may be re-tuned up to 5 s at each end
			if wfAt >= 0 {
				// the tuning calls scheduled before the fault, the fault, the rest
				var before, after []sessRetune
				for _, r := range retunes {
					if r.AtMs <= wfAt {
						before = append(before, r)
					} else {
						after = append(after, r)
					}
				}
				var m int
				m, err = runPairWithRetunes(p, s, before)
				retuned += m
				if err == nil {
					err = p.Run(wfAt, false)
				}
				if err == nil && !p.Complete() {
					before := p.Conn[wfEnd].Writes
					p.WriteCutOK[wfEnd] = true
					p.Conn[wfEnd].FailWrites(wfN, errC02Transient)
					defer func() { wfHit = p.Conn[wfEnd].Writes > before; wfCut = p.WriteCut[wfEnd] }()
				}
				if err == nil {
					m, err = runPairWithRetunes(p, s, after)
					retuned += m
				}
			} else {
				retuned, err = runPairWithRetunes(p, s, retunes)
			}
			if err == nil {
				err = runPairUntilComplete(p, s, fs.EndTime(), 0, ivSum)
			}
			if err == nil && p.Complete() {
				// the backlogs: acknowledgements of the tail must get through as well
				last, lastAt := pairSignature(p), s.Now()
				for err == nil && !p.Drained() {
					err = p.Run(s.Now()+20_000, true)
					if sig := pairSignature(p); sig != last {
						last, lastAt = sig, s.Now()
						continue
					}
					if !s.ScriptsDone() {
						lastAt = s.Now() // datagram-counted faults still in progress
						if s.Now() > 6*3600_000 {
							err = errScriptUnfinished
						}
						continue
					}
					if allow := pairAllowance(p, 4*int64(ivSum)); s.Now()-lastAt > allow {
						w0, w1 := 0, 0
						p.Sess[0].VerifWithKCP(func(k *kcp.KCP) { w0 = k.WaitSnd() })
						p.Sess[1].VerifWithKCP(func(k *kcp.KCP) { w1 = k.WaitSnd() })
						err = fmt.Errorf("everything was read, but the send backlogs (%d and %d segments) have not moved since %d ms (now %d ms, allowance %d ms)", w0, w1, lastAt, s.Now(), allow)
					}
				}
				drained = err == nil && p.Drained()
			}
			outageHit = s.Dropped > 0
			d = snmpSince(before)
			if err == errScriptUnfinished {
				rec.Class("script_unfinished_inconclusive", 1)
				err = nil
			}
			if err != nil {
				rt.Fatalf("C02 (session): %v\ntuning calls in mid-connection: %+v; transient send fault at %d ms, end %d, %d call(s)\ncase: %+v", err, retunes, wfAt, wfEnd, wfN, describePair(cfg, fs, app))
			}
		})
		cl := []string{"cipher_" + cfg.Cipher}
		if cfg.FEC[0][0] > 0 {
			cl = append(cl, "fec_on")
		}
		if cfg.Listener {
			cl = append(cl, "via_listener")
		}
		if d.Retrans > 0 {
			cl = append(cl, "retransmission")
		}
		if d.Lost > 0 {
			cl = append(cl, "rto_retransmission")
		}
		if len(fs.Outages) > 0 {
			cl = append(cl, "timed_outage")
		}
		if drained {
			cl = append(cl, "read_and_drained")
		}
		if retuned > 0 {
			cl = append(cl, "retuned_in_mid_connection")
		}
		if wfHit {
			cl = append(cl, "transient_socket_send_error")
		}
		if wfCut {
			cl = append(cl, "later_write_refused_after_send_error")
		}
		rec.Case(hx.Hash64(describePair(cfg, fs, app), retunes, wfAt, wfEnd, wfN), outageHit && d.Retrans > 0, cl...)
		if rec.WantSample() {
			dd := describePair(cfg, fs, app)
			dd["snmp_delta"] = d
			rec.Sample(dd)
		}
	})
}
