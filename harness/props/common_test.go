package props

import (
	"fmt"
	"sort"
	"testing"
	"testing/synctest"

	"pgregory.net/rapid"
	"verif/harness/sim"
)

// mssOf is the documented payload capacity of a raw core with this MTU.
func mssOf(e sim.EPConfig) int {
	m := e.MTU
	if m == 0 {
		m = 1400
	}
	return m - 24
}

// drawCoreApps draws the two application scripts for a CoreSim configuration,
// respecting the documented limits of Send (<=255 fragments; in message mode
// a message must fit the peer's receive window).
func drawCoreApps(t *rapid.T, cfg sim.CoreCfg, maxWrites, maxTotal int) [2]sim.AppScript {
	var app [2]sim.AppScript
	for w := 0; w < 2; w++ {
		label := fmt.Sprintf("app%d.", w)
		mss := mssOf(cfg.EP[w])
		maxFrags := 200
		if !cfg.Stream {
			maxFrags = min(255, cfg.EP[1-w].RcvWnd)
		}
		maxOne := min(maxFrags*mss, 70000)
		mw := maxWrites
		if w == 1 && rapid.IntRange(0, 2).Draw(t, label+"oneway") == 0 {
			mw = 0
		}
		app[w].Writes = sim.DrawWriteSizes(t, label, mss, mw, maxTotal, maxOne)
		// message mode: the documented fragment limit itself (255 accepted, 256 and
		// more refused) - only where the peer's window can hold such a message
		if !cfg.Stream && cfg.EP[1-w].RcvWnd >= 300 && mss <= 600 && rapid.IntRange(0, 3).Draw(t, label+"fragLimit") == 0 {
			k := rapid.SampledFrom([]int{254, 255, 256, 257}).Draw(t, label+"nfrags")
			big := k*mss - rapid.IntRange(0, mss-1).Draw(t, label+"lastFrag")
			pos := rapid.IntRange(0, len(app[w].Writes)).Draw(t, label+"fragLimitPos")
			app[w].Writes = append(app[w].Writes[:pos], append([]int{big}, app[w].Writes[pos:]...)...)
		}
		app[w].ReadBufs = sim.DrawReadBufs(t, label, mss)
		if rapid.IntRange(0, 3).Draw(t, label+"gaps") == 0 {
			for range app[w].Writes {
				app[w].GapMs = append(app[w].GapMs, int32(rapid.SampledFrom([]int{0, 0, 1, 30, 250, 700}).Draw(t, label+"gap")))
			}
		}
	}
	return app
}

func describeCore(cfg sim.CoreCfg, fs *sim.FateScript, app [2]sim.AppScript) map[string]any {
	trim := func(w []int) any {
		if len(w) > 12 {
			return map[string]any{"n": len(w), "first": w[:12]}
		}
		return w
	}
	return map[string]any{
		"cfg":   cfg,
		"fates": fs.Describe(),
		"app": []any{
			map[string]any{"writes": trim(app[0].Writes), "readbufs": app[0].ReadBufs, "pauses": app[0].Pauses},
			map[string]any{"writes": trim(app[1].Writes), "readbufs": app[1].ReadBufs, "pauses": app[1].Pauses},
		},
	}
}

// bubble runs f inside one synctest bubble on a plain test.
func bubble(t *testing.T, f func()) {
	t.Helper()
	synctest.Test(t, func(*testing.T) { f() })
}

// coreRetune is one tuning call on a raw core in mid-connection.
type coreRetune struct {
	AtMs int64
	EP   int
	Kind string // wnd | nodelay
	A    [4]int
}

// drawCoreRetunes: up to three WndSize / NoDelay calls during the run. The
// receive window is only raised (message mode needs room for a whole message).
func drawCoreRetunes(t *rapid.T, cfg sim.CoreCfg) []coreRetune {
	var out []coreRetune
	for i, n := 0, rapid.SampledFrom([]int{0, 0, 1, 2, 3}).Draw(t, "nRetunes"); i < n; i++ {
		r := coreRetune{AtMs: int64(rapid.SampledFrom([]int{3, 40, 250, 1500, 20_000}).Draw(t, "retuneAt")), EP: rapid.IntRange(0, 1).Draw(t, "retuneEP")}
		if rapid.Bool().Draw(t, "retuneWnd") {
			r.Kind = "wnd"
			r.A[0] = rapid.SampledFrom([]int{1, 2, 4, 16, 64, 512}).Draw(t, "retuneSnd")
			r.A[1] = cfg.EP[r.EP].RcvWnd * rapid.SampledFrom([]int{1, 2, 8}).Draw(t, "retuneRcvMul")
		} else {
			r.Kind = "nodelay"
			r.A = [4]int{rapid.IntRange(-1, 2).Draw(t, "rtNd"), rapid.SampledFrom([]int{-1, 5, 10, 20, 40, 100, 200, 1000, 9000}).Draw(t, "rtIv"), rapid.SampledFrom([]int{-1, 0, 1, 2, 5}).Draw(t, "rtRs"), rapid.IntRange(-1, 1).Draw(t, "rtNc")}
		}
		out = append(out, r)
	}
	sort.SliceStable(out, func(i, j int) bool { return out[i].AtMs < out[j].AtMs })
	return out
}

func coreRetuneOps(rts []coreRetune) []sim.TimedOp {
	var ops []sim.TimedOp
	for _, r := range rts {
		r := r
		ops = append(ops, sim.TimedOp{At: r.AtMs, Name: fmt.Sprintf("%s%v at endpoint %d", r.Kind, r.A, r.EP), Fn: func(s *sim.CoreSim) error {
			if r.Kind == "wnd" {
				s.K[r.EP].WndSize(r.A[0], r.A[1])
			} else {
				s.K[r.EP].NoDelay(r.A[0], r.A[1], r.A[2], r.A[3])
			}
			return nil
		}})
	}
	return ops
}
