package props

// C17: every function submitted to the timed scheduler before Close runs
// exactly once, never before its deadline, promptly after it; a far-future
// task never delays a nearer one. Real scheduler, real timers, real time; run
// under both Go timer-channel semantics (GODEBUG=asynctimerchan=0/1).

import (
	"fmt"
	"math"
	"math/rand/v2"
	"os"
	"sort"
	"sync"
	"sync/atomic"
	"testing"
	"time"

	kcp "github.com/xtaci/kcp-go/v5"
	"verif/harness/hx"
)

type c17Task struct {
	id        int
	submitter int
	far       bool
	deadline  time.Time
	submitted time.Time
	runs      atomic.Int32
	ranAt     atomic.Int64 // unix nanos of the first run
	early     atomic.Bool
}

type c17Case struct {
	Seed       uint64
	Parallel   int
	Submitters int
	PerSub     int
	Pattern    string
}

const c17Grace = 2 * time.Second

func c17Run(c c17Case) (nontrivial bool, inconclusive bool, lateness []time.Duration, err error) {
	rng := rand.New(rand.NewPCG(c.Seed, 0x17))
	ts := kcp.NewTimedSched(c.Parallel)
	defer ts.Close()
	var mu sync.Mutex
	var tasks []*c17Task
	// starvation monitor: a harness that is itself descheduled proves nothing
	stop := make(chan struct{})
	var maxOver atomic.Int64
	go func() {
		for {
			select {
			case <-stop:
				return
			default:
			}
			t0 := time.Now()
			time.Sleep(5 * time.Millisecond)
			if o := int64(time.Since(t0) - 5*time.Millisecond); o > maxOver.Load() {
				maxOver.Store(o)
			}
		}
	}()
	var wg sync.WaitGroup
	type plan struct {
		sleep time.Duration
		off   time.Duration
		far   bool
		child time.Duration // >= 0: when it runs, the task submits another one due this much later (as session updates do)
	}
	plans := make([][]plan, c.Submitters)
	for s := range plans {
		prev := time.Duration(rng.IntN(200)) * time.Millisecond
		for i := 0; i < c.PerSub; i++ {
			var p plan
			switch c.Pattern {
			case "burst":
				p.sleep = 0
			case "trickle":
				p.sleep = time.Duration(rng.IntN(400)) * time.Microsecond
			default:
				if rng.IntN(4) == 0 {
					p.sleep = time.Duration(rng.IntN(2000)) * time.Microsecond
				}
			}
			switch rng.IntN(9) {
			case 0:
				p.off = -time.Duration(rng.IntN(50)+1) * time.Millisecond // past
			case 1:
				p.off = 0 // now
			case 2:
				p.off = time.Duration(rng.IntN(200)) * time.Microsecond // now + epsilon
			case 3:
				p.off = prev // equal to the previous
			case 4:
				prev += time.Duration(rng.IntN(20)) * time.Millisecond // increasing
				p.off = prev
			case 5:
				prev -= time.Duration(rng.IntN(20)) * time.Millisecond // decreasing
				if prev < 0 {
					prev = 0
				}
				p.off = prev
			case 6:
				// "never": an hour, a century, the largest Duration (a deadline past
				// the year 2262, where UnixNano no longer fits), the largest time value
				p.off, p.far = []time.Duration{time.Hour, time.Hour, 100 * 365 * 24 * time.Hour, math.MaxInt64, -2}[rng.IntN(5)], true
			default:
				p.off = time.Duration(rng.IntN(300)) * time.Millisecond
			}
			if !p.far {
				prev = max(p.off, 0)
			}
			p.child = -1
			if !p.far && rng.IntN(4) == 0 {
				p.child = time.Duration(rng.IntN(4)) * time.Duration(rng.IntN(15)) * time.Millisecond
			}
			plans[s] = append(plans[s], p)
		}
	}
	start := time.Now()
	var lastNear atomic.Int64
	nested := 0
	for s := 0; s < c.Submitters; s++ {
		wg.Add(1)
		go func(s int) {
			defer wg.Done()
			for i, p := range plans[s] {
				if p.sleep > 0 {
					time.Sleep(p.sleep)
				}
				t := &c17Task{id: i, submitter: s, far: p.far}
				now := time.Now()
				t.deadline = now.Add(p.off)
				if p.far && p.off == -2 {
					t.deadline = time.Unix(1<<62, 0)
				}
				if p.off > 0 && !p.far && rng == nil {
					_ = now
				}
				t.submitted = now
				if !p.far {
					if d := t.deadline.UnixNano(); d > lastNear.Load() {
						lastNear.Store(d)
					}
				}
				mu.Lock()
				tasks = append(tasks, t)
				mu.Unlock()
				var run func(t *c17Task, child time.Duration) func()
				run = func(t *c17Task, child time.Duration) func() {
					return func() {
						n := time.Now()
						if t.runs.Add(1) == 1 {
							t.ranAt.Store(n.UnixNano())
							if n.Before(t.deadline) {
								t.early.Store(true)
							}
							if child >= 0 {
								// submitted from inside a running task, on a scheduler goroutine
								ct := &c17Task{id: 1000 + t.id, submitter: t.submitter, submitted: n, deadline: n.Add(child)}
								if d := ct.deadline.UnixNano(); d > lastNear.Load() {
									lastNear.Store(d)
								}
								mu.Lock()
								tasks = append(tasks, ct)
								nested++
								mu.Unlock()
								ts.Put(run(ct, -1), ct.deadline)
							}
						}
					}
				}
				ts.Put(run(t, p.child), t.deadline)
			}
		}(s)
	}
	wg.Wait()
	submitSpan := time.Since(start)
	// wait until every near task has run, at most until the last near deadline + grace
	for {
		limit := time.Unix(0, lastNear.Load()).Add(c17Grace) // tasks submitted by tasks move it
		pending := 0
		mu.Lock()
		for _, t := range tasks {
			if !t.far && t.runs.Load() == 0 {
				pending++
			}
		}
		mu.Unlock()
		if time.Now().After(limit) {
			break
		}
		if pending == 0 {
			// a task that has just run may be about to register the task it
			// submits: settle, and look again (a second run of a task would
			// show up now as well)
			mu.Lock()
			n0 := len(tasks)
			mu.Unlock()
			time.Sleep(20 * time.Millisecond)
			mu.Lock()
			settled := len(tasks) == n0
			for _, t := range tasks {
				if !t.far && t.runs.Load() == 0 {
					settled = false
				}
			}
			mu.Unlock()
			if settled {
				break
			}
			continue
		}
		time.Sleep(2 * time.Millisecond)
	}
	close(stop)
	if time.Duration(maxOver.Load()) > 200*time.Millisecond {
		return false, true, nil, nil
	}
	sort.Slice(tasks, func(i, j int) bool { return tasks[i].submitted.Before(tasks[j].submitted) })
	inversions := 0
	for i := 1; i < len(tasks); i++ {
		if !tasks[i].far && !tasks[i-1].far && tasks[i].deadline.Before(tasks[i-1].deadline) {
			inversions++
		}
	}
	for _, t := range tasks {
		runs := t.runs.Load()
		what := fmt.Sprintf("task %d of submitter %d (deadline = submission%+v)", t.id, t.submitter, t.deadline.Sub(t.submitted))
		if t.far {
			if runs != 0 {
				return false, false, nil, fmt.Errorf("%s ran %d time(s), an hour before its deadline", what, runs)
			}
			continue
		}
		if runs > 1 {
			return false, false, nil, fmt.Errorf("%s ran %d times", what, runs)
		}
		if runs == 0 {
			return false, false, nil, fmt.Errorf("%s had not run %v after its deadline (lost)", what, time.Since(t.deadline).Round(time.Millisecond))
		}
		if t.early.Load() {
			return false, false, nil, fmt.Errorf("%s ran %v before its deadline", what, t.deadline.Sub(time.Unix(0, t.ranAt.Load())))
		}
		due := t.deadline
		if t.submitted.After(due) {
			due = t.submitted
		}
		late := time.Unix(0, t.ranAt.Load()).Sub(due)
		if late > c17Grace {
			return false, false, nil, fmt.Errorf("%s ran %v after it was due", what, late.Round(time.Millisecond))
		}
		lateness = append(lateness, late)
	}
	nontrivial = c.Submitters >= 2 && inversions > 0 && submitSpan > 2*time.Millisecond
	return nontrivial, false, lateness, nil
}

func TestC17Sched(t *testing.T) {
	rec := hx.NewRecorder(t)
	seed := hx.Seed()
	budget := time.Duration(hx.EnvInt("C17_SECONDS", 12)) * time.Second
	var rp c17Case
	if hx.ReplayFile(&rp) {
		for i := 0; i < 20; i++ {
			if _, _, _, err := c17Run(rp); err != nil {
				t.Fatalf("replay %+v (attempt %d): %v", rp, i, err)
			}
		}
		return
	}
	end := time.Now().Add(budget)
	var all []time.Duration
	inconclusive := 0
	var mu sync.Mutex
	var wg sync.WaitGroup
	var failed atomic.Bool
	var failCase c17Case
	var failErr error
	workers := hx.EnvInt("C17_WORKERS", 4)
	for w := 0; w < workers; w++ {
		wg.Add(1)
		go func(w int) {
			defer wg.Done()
			rng := rand.New(rand.NewPCG(seed, uint64(17+w)))
			for time.Now().Before(end) && !failed.Load() {
				c := c17Case{
					Seed:       rng.Uint64(),
					Parallel:   []int{1, 1, 2, 3, 4, 8, 16}[rng.IntN(7)],
					Submitters: []int{1, 2, 2, 3, 4, 8, 16, 32}[rng.IntN(8)],
					Pattern:    []string{"burst", "trickle", "mixed"}[rng.IntN(3)],
				}
				total := []int{20, 100, 100, 300, 1000, 3000, 10000}[rng.IntN(7)]
				if c.Pattern == "trickle" {
					total = min(total, 1000)
				}
				c.PerSub = max(1, total/c.Submitters)
				nt, inc, lat, err := c17Run(c)
				mu.Lock()
				if err != nil {
					if !failed.Swap(true) {
						failCase, failErr = c, err
					}
					mu.Unlock()
					return
				}
				if inc {
					inconclusive++
					mu.Unlock()
					continue
				}
				all = append(all, lat...)
				mu.Unlock()
				rec.Case(hx.Hash64(c), nt, "pattern_"+c.Pattern, fmt.Sprintf("parallel_%d", c.Parallel))
				if rec.WantSample() {
					rec.Sample(c)
				}
			}
		}(w)
	}
	wg.Wait()
	if failErr != nil {
		c := failCase
		hx.Fail(t, c, "C17 (GODEBUG=%q, parallel=%d, %d submitters x %d tasks, %s): %v", os.Getenv("GODEBUG"), c.Parallel, c.Submitters, c.PerSub, c.Pattern, failErr)
	}
	sort.Slice(all, func(i, j int) bool { return all[i] < all[j] })
	if len(all) > 0 {
		rec.Set("lateness_p50_us", all[len(all)/2].Microseconds())
		rec.Set("lateness_p99_us", all[len(all)*99/100].Microseconds())
		rec.Set("lateness_max_us", all[len(all)-1].Microseconds())
	}
	rec.Add("n_tasks_checked", int64(len(all)))
	rec.Add("n_cases_discarded_harness_starved", int64(inconclusive))
	rec.Set("godebug", os.Getenv("GODEBUG"))
}
