package props

// C03: if the receiving application stops reading, the sender is slowed to a
// standstill without loss and without unbounded buffering; when reading
// resumes the transfer completes - even if every window-update / window-probe
// / ack-only datagram sent during some finite period is lost.

import (
	"fmt"
	kcp "github.com/xtaci/kcp-go/v5"
	"sort"
	"testing"

	"pgregory.net/rapid"
	"verif/harness/hx"
	"verif/harness/sim"
	"verif/harness/wire"
)

type dropWindow struct{ From, To int64 }

func drawPauses(t *rapid.T, total int64) ([]sim.Pause, int64) {
	var ps []sim.Pause
	var longest int64
	n := rapid.IntRange(1, 3).Draw(t, "npauses")
	for i := 0; i < n; i++ {
		p := sim.Pause{
			AfterBytes: int64(rapid.IntRange(0, int(max(total, 1))).Draw(t, "pauseAfter")),
			Ms:         int64(rapid.SampledFrom([]int{50, 700, 5000, 40_000, 200_000, 600_000}).Draw(t, "pauseMs")),
		}
		if i == 0 && rapid.Bool().Draw(t, "beforeFirstRead") {
			p.AfterBytes = 0
		}
		longest = max(longest, p.Ms)
		ps = append(ps, p)
	}
	// pauses must be ordered by AfterBytes for the reader script
	for i := 1; i < len(ps); i++ {
		if ps[i].AfterBytes < ps[i-1].AfterBytes {
			ps[i].AfterBytes = ps[i-1].AfterBytes
		}
	}
	return ps, longest
}

func controlOnly(segs []wire.Segment) (ctl bool, wask, wins, zeroWnd bool) {
	ctl = true
	for _, sg := range segs {
		switch sg.Cmd {
		case wire.CmdPush:
			ctl = false
		case wire.CmdWask:
			wask = true
		case wire.CmdWins:
			wins = true
		}
		if sg.Wnd == 0 {
			zeroWnd = true
		}
	}
	return
}

func TestC03Core(t *testing.T) {
	rec := hx.NewRecorder(t)
	rapid.Check(t, func(rt *rapid.T) {
		cfg := sim.DrawCoreCfg(rt)
		// the receiver of the A->B stream has a small window
		cfg.EP[1].RcvWnd = rapid.SampledFrom([]int{1, 2, 3, 4, 8, 16, 64}).Draw(rt, "rcvwnd")
		fs := sim.DrawFateScript(rt, sim.FateOpts{MaxExplicit: 8, MaxRegimes: 2, MaxRegLen: 80, MaxDelay: 300, MaxLossPm: 200})
		app := drawCoreApps(rt, cfg, 40, 150_000)
		if len(app[0].Writes) == 0 {
			app[0].Writes = []int{mssOf(cfg.EP[0]) * min(3, cfg.EP[1].RcvWnd)} // a message must fit the receive window
		}
		var total int64
		for _, n := range app[0].Writes {
			total += int64(n)
		}
		var longest int64
		app[0].Pauses, longest = drawPauses(rt, total)
		// windows of time in which every WASK / WINS / ack-only datagram is lost
		var drops []dropWindow
		var lastDrop int64
		for i, n := 0, rapid.IntRange(0, 3).Draw(rt, "ndrops"); i < n; i++ {
			from := int64(rapid.IntRange(0, int(min(longest+5000, 700_000))).Draw(rt, "dropFrom"))
			d := dropWindow{from, from + int64(rapid.SampledFrom([]int{200, 3000, 30_000, 150_000, 400_000}).Draw(rt, "dropLen"))}
			drops = append(drops, d)
			lastDrop = max(lastDrop, d.To)
		}
		// the application may enlarge the receive window at any time, also in the
		// middle of a stall, when segments are parked behind a full queue
		type grow struct {
			At  int64
			Mul int
		}
		var grows []grow
		for i, n := 0, rapid.SampledFrom([]int{0, 1, 1, 2}).Draw(rt, "nGrows"); i < n; i++ {
			grows = append(grows, grow{int64(rapid.IntRange(0, int(min(longest+2000, 650_000))).Draw(rt, "growAt")), rapid.SampledFrom([]int{2, 3, 8}).Draw(rt, "growMul")})
		}
		sort.SliceStable(grows, func(i, j int) bool { return grows[i].At < grows[j].At })
		var st sim.CoreStats
		var obs c04Obs
		zeroAdv, waskSent, ctlDropped := false, 0, 0
		grown := 0
		rapid.SyncTest(rt, func(rt *rapid.T) {
			s := sim.NewCoreSim(cfg, fs, app)
			for _, g := range grows {
				g := g
				s.Ops = append(s.Ops, sim.TimedOp{At: g.At, Name: fmt.Sprintf("receive window x%d at the receiver", g.Mul), Fn: func(s *sim.CoreSim) error {
					s.K[1].WndSize(0, int(s.K[1].VerifState(false).RcvWnd)*g.Mul)
					grown++
					return nil
				}})
			}
			attachC04(s, &obs)
			inner := s.OnEmit
			s.OnEmit = func(e *sim.Emitted) error {
				_, wask, _, zero := controlOnly(e.Segs)
				if wask {
					waskSent++
				}
				if zero && e.From == 1 {
					zeroAdv = true
				}
				return inner(e)
			}
			s.Intercept = func(e *sim.Emitted) *sim.Fate {
				ctl, _, _, _ := controlOnly(e.Segs)
				if !ctl {
					return nil
				}
				for _, d := range drops {
					if e.At >= d.From && e.At < d.To {
						ctlDropped++
						return &sim.Fate{}
					}
				}
				return nil
			}
			step := s.OnStep
			maxWrite := 0
			for _, n := range app[0].Writes {
				maxWrite = max(maxWrite, (n+mssOf(cfg.EP[0])-1)/mssOf(cfg.EP[0]))
			}
			s.OnStep = func(what string, ep int) error {
				if err := step(what, ep); err != nil {
					return err
				}
				// sender backlog stays within a send window plus the one write admitted last
				if w := s.K[0].WaitSnd(); w > cfg.EP[0].SndWnd+maxWrite {
					return fmt.Errorf("sender backlog is %d segments (send window %d, largest write %d segments)", w, cfg.EP[0].SndWnd, maxWrite)
				}
				return nil
			}
			// the faults end when the scripts, the pauses and the drop windows are over
			var pauseSum int64
			for _, p := range app[0].Pauses {
				pauseSum += p.Ms
			}
			err := runUntilDrainedAfter(s, cfg, fs, app, max(lastDrop, pauseSum)+pauseSum+180_000)
			st = s.Stats
			if err == errScriptUnfinished {
				rec.Class("script_unfinished_inconclusive", 1)
				err = nil
			}
			if err != nil {
				rt.Fatalf("C03 (raw core): %v\npauses %+v, control datagrams dropped during %+v, receive window enlarged at %+v\ncase: %+v", err, app[0].Pauses, drops, grows, describeCore(cfg, fs, app))
			}
		})
		cl := coreClasses(&st)
		if zeroAdv {
			cl = append(cl, "zero_window_advertised")
		}
		if waskSent > 0 {
			cl = append(cl, "window_probe_sent")
		}
		if ctlDropped > 0 {
			cl = append(cl, "control_datagram_dropped")
		}
		if obs.fullRcvQ {
			cl = append(cl, "full_delivery_queue")
		}
		if grown > 0 {
			cl = append(cl, "receive_window_enlarged_in_mid_connection")
		}
		rec.Case(hx.Hash64(cfg, fs.Describe(), app, drops, grows), zeroAdv && waskSent > 0 && ctlDropped > 0, cl...)
		if rec.WantSample() {
			d := describeCore(cfg, fs, app)
			d["control_drop_windows_ms"] = drops
			d["stats"] = st
			rec.Sample(d)
		}
	})
}

// TestC03Session: the same property through real sessions (cipher, FEC,
// Write's back-pressure): control datagrams are recognised by decrypting and
// parsing them with the independent decoder.
func TestC03Session(t *testing.T) {
	rec := hx.NewRecorder(t)
	rapid.Check(t, func(rt *rapid.T) {
		cfg := drawPairCfg(rt, pairGenOpts{ForceDialed: true})
		cfg.Opts[1].RcvWnd = rapid.SampledFrom([]int{1, 2, 4, 8, 32}).Draw(rt, "rcvwnd")
		fs := sim.DrawFateScript(rt, sim.FateOpts{MaxExplicit: 6, MaxRegimes: 2, MaxRegLen: 60, MaxDelay: 300, MaxLossPm: 150})
		app := drawSessApps(rt, pairMSS(cfg), 25, 100_000)
		if len(app[0].Writes) == 0 {
			app[0].Writes = []int{5000}
		}
		var total int64
		for _, n := range app[0].Writes {
			total += int64(n)
		}
		var longest int64
		app[0].Pauses, longest = drawPauses(rt, total)
		var drops []dropWindow
		var lastDrop int64
		for i, n := 0, rapid.IntRange(0, 3).Draw(rt, "ndrops"); i < n; i++ {
			from := int64(rapid.IntRange(0, int(min(longest+5000, 700_000))).Draw(rt, "dropFrom"))
			d := dropWindow{from, from + int64(rapid.SampledFrom([]int{200, 3000, 30_000, 150_000, 400_000}).Draw(rt, "dropLen"))}
			drops = append(drops, d)
			lastDrop = max(lastDrop, d.To)
		}
		var growAt []int64
		for i, n := 0, rapid.SampledFrom([]int{0, 1, 1, 2}).Draw(rt, "nGrows"); i < n; i++ {
			growAt = append(growAt, int64(rapid.IntRange(0, int(min(longest+2000, 650_000))).Draw(rt, "growAt")))
		}
		sort.Slice(growAt, func(i, j int) bool { return growAt[i] < growAt[j] })
		grown := 0
		zeroAdv, waskSent, ctlDropped, maxBacklog := false, 0, 0, 0
		rapid.SyncTest(rt, func(rt *rapid.T) {
			s := sim.NewSessSim(cfg.ClockOff, cfg.EntropySeed)
			p, err := sim.NewPair(s, cfg, app)
			if err != nil {
				rt.Fatalf("setup: %v", err)
			}
			defer p.Finish(nil)
			setPairLinks(s, p, fs)
			maxWrite := 0
			for i, n := range app[0].Writes {
				// every buffer of a vectored write is cut into segments on its own
				sizes := app[0].VecCuts(i, n)
				if sizes == nil {
					sizes = []int{n}
				}
				segs := 0
				for _, sz := range sizes {
					segs += (sz + p.MSS[0] - 1) / p.MSS[0]
				}
				maxWrite = max(maxWrite, segs)
			}
			s.OnSent = func(d *sim.Sent, from, to string, f *sim.Fate) error {
				e := 0
				if from == p.Addr[1].String() {
					e = 1
				}
				_, payload, err := p.Crypto.Open(d.Data)
				if err != nil {
					return err
				}
				fr, err := wire.ParseFrame(payload, cfg.FEC[e][0] > 0)
				if err != nil {
					return err
				}
				if fr.HasFEC && fr.Type != wire.TypeData {
					return nil // parity carries no window information of its own
				}
				ctl, wask, _, zero := controlOnly(fr.Segments)
				if wask {
					waskSent++
				}
				if zero && e == 1 {
					zeroAdv = true
				}
				if ctl {
					for _, w := range drops {
						if now := s.Now(); now >= w.From && now < w.To {
							ctlDropped++
							*f = sim.Fate{}
						}
					}
				}
				// unbounded buffering would show here
				var backlog int
				p.Sess[0].VerifWithKCP(func(k *kcp.KCP) { backlog = k.WaitSnd() })
				maxBacklog = max(maxBacklog, backlog)
				if backlog > cfg.Opts[0].SndWnd+maxWrite {
					return fmt.Errorf("sender backlog is %d segments (send window %d, largest write %d segments)", backlog, cfg.Opts[0].SndWnd, maxWrite)
				}
				return sessionLimits(p.Sess[1])
			}
			var pauseSum int64
			for _, ps := range app[0].Pauses {
				pauseSum += ps.Ms
			}
			faultsEnd := max(lastDrop, pauseSum, fs.EndTime()) + pauseSum
			segs := total/int64(p.MSS[0]) + 10
			// the receiving application enlarges its window at drawn moments, also in mid-stall
			rw := cfg.Opts[1].RcvWnd
			for _, at := range growAt {
				if err = p.Run(at, false); err != nil || p.Complete() {
					break
				}
				rw *= 2
				p.Sess[1].SetWindowSize(cfg.Opts[1].SndWnd, rw)
				grown++
				s.Quiesce()
			}
			if err == nil {
				err = runPairUntilComplete(p, s, faultsEnd, segs, cfg.Opts[0].Interval+cfg.Opts[1].Interval)
			}
			if err == errScriptUnfinished {
				rec.Class("script_unfinished_inconclusive", 1)
				err = nil
			}
			if err != nil {
				rt.Fatalf("C03 (session): %v\npauses %+v, control datagrams dropped during %+v\ncase: %+v", err, app[0].Pauses, drops, describePair(cfg, fs, app))
			}
		})
		cl := []string{"cipher_" + cfg.Cipher}
		if zeroAdv {
			cl = append(cl, "zero_window_advertised")
		}
		if waskSent > 0 {
			cl = append(cl, "window_probe_sent")
		}
		if ctlDropped > 0 {
			cl = append(cl, "control_datagram_dropped")
		}
		if cfg.FEC[0][0] > 0 {
			cl = append(cl, "fec_on")
		}
		if grown > 0 {
			cl = append(cl, "receive_window_enlarged_in_mid_connection")
		}
		rec.Case(hx.Hash64(describePair(cfg, fs, app), drops, growAt), zeroAdv && waskSent > 0 && ctlDropped > 0, cl...)
		if rec.WantSample() {
			d := describePair(cfg, fs, app)
			d["control_drop_windows_ms"] = drops
			d["max_sender_backlog"] = maxBacklog
			rec.Sample(d)
		}
	})
}

// TestC03WindowShrunk: the receiving application lowers its receive window on
// the live connection - at a drawn time or at the moment its delivery queue is
// full with acknowledged segments parked behind it (the sender has released
// them: nobody will send them again). Nothing may be lost: after the stall the
// transfer resumes and completes, every byte in order (the simulator's content
// oracle). The new window still holds the largest message (in message mode a
// message must fit the receive window).
func TestC03WindowShrunk(t *testing.T) {
	rec := hx.NewRecorder(t)
	rapid.Check(t, func(rt *rapid.T) {
		cfg := sim.DrawCoreCfg(rt)
		cfg.EP[1].RcvWnd = rapid.SampledFrom([]int{2, 3, 4, 8, 16, 64}).Draw(rt, "rcvwnd")
		fs := sim.DrawFateScript(rt, sim.FateOpts{MaxExplicit: 8, MaxRegimes: 2, MaxRegLen: 80, MaxDelay: 300, MaxLossPm: 200})
		app := drawCoreApps(rt, cfg, 40, 150_000)
		if len(app[0].Writes) == 0 {
			app[0].Writes = []int{mssOf(cfg.EP[0]) * min(3, cfg.EP[1].RcvWnd)}
		}
		var total int64
		need := 1
		for _, n := range app[0].Writes {
			total += int64(n)
			if !cfg.Stream {
				need = max(need, (n+mssOf(cfg.EP[0])-1)/mssOf(cfg.EP[0]))
			}
		}
		var longest int64
		app[0].Pauses, longest = drawPauses(rt, total)
		div := rapid.SampledFrom([]int{2, 4, 1000}).Draw(rt, "shrinkBy")
		whenFull := rapid.Bool().Draw(rt, "shrinkWhenQueueFull")
		at := int64(rapid.IntRange(0, int(min(longest+2000, 650_000))).Draw(rt, "shrinkAt"))
		var st sim.CoreStats
		shrunk, parked := 0, 0
		zeroAdv, waskSent := false, 0
		rapid.SyncTest(rt, func(rt *rapid.T) {
			s := sim.NewCoreSim(cfg, fs, app)
			s.OnEmit = func(e *sim.Emitted) error {
				_, wask, _, zero := controlOnly(e.Segs)
				if wask {
					waskSent++
				}
				if zero && e.From == 1 {
					zeroAdv = true
				}
				return nil
			}
			shrink := func() {
				v := s.K[1].VerifState(false)
				to := max(1, need, int(v.RcvWnd)/div)
				if to < int(v.RcvWnd) {
					s.K[1].WndSize(0, to)
					shrunk++
					if v.RcvBuf > 0 {
						parked++
					}
				}
			}
			if whenFull {
				done := false
				s.OnStep = func(what string, ep int) error {
					if v := s.K[1].VerifState(false); !done && v.RcvQueue >= int(v.RcvWnd) && v.RcvBuf > 0 {
						done = true
						shrink()
					}
					return nil
				}
			} else {
				s.Ops = append(s.Ops, sim.TimedOp{At: at, Name: "receive window lowered at the receiver", Fn: func(s *sim.CoreSim) error { shrink(); return nil }})
			}
			var pauseSum int64
			for _, p := range app[0].Pauses {
				pauseSum += p.Ms
			}
			err := runUntilDrainedAfter(s, cfg, fs, app, pauseSum+pauseSum+180_000)
			st = s.Stats
			if err == errScriptUnfinished {
				rec.Class("script_unfinished_inconclusive", 1)
				err = nil
			}
			if err != nil {
				rt.Fatalf("C03 (receive window lowered in mid-connection): %v\npauses %+v, window divided by %d (at least %d) %s\ncase: %+v", err, app[0].Pauses, div, need,
					map[bool]string{true: "when the delivery queue was full with segments parked behind it", false: fmt.Sprintf("at %d ms", at)}[whenFull], describeCore(cfg, fs, app))
			}
		})
		cl := coreClasses(&st)
		if shrunk > 0 {
			cl = append(cl, "receive_window_lowered_in_mid_connection")
		}
		if parked > 0 {
			cl = append(cl, "lowered_with_segments_parked_behind_the_queue")
		}
		if zeroAdv {
			cl = append(cl, "zero_window_advertised")
		}
		if waskSent > 0 {
			cl = append(cl, "window_probe_sent")
		}
		rec.Case(hx.Hash64(cfg, fs.Describe(), app, div, whenFull, at), parked > 0, cl...)
		if rec.WantSample() {
			d := describeCore(cfg, fs, app)
			d["shrink"] = map[string]any{"divide_by": div, "when_queue_full": whenFull, "at_ms": at, "done": shrunk}
			d["stats"] = st
			rec.Sample(d)
		}
	})
}
