package props

// C18: (a) on a loss-free FIFO path whose round trip (including the peer's
// acknowledgement delay) stays below the minimum RTO, and whose receiver never
// discards for lack of window, every data segment is transmitted exactly once;
// (b) the retransmission timeout always lies within [configured minimum, 60 s]
// whatever acknowledgement timing or timestamps are observed.

import (
	"fmt"
	"testing"

	kcp "github.com/xtaci/kcp-go/v5"
	"pgregory.net/rapid"
	"verif/harness/hx"
	"verif/harness/sim"
	"verif/harness/wire"
)

func minRTO(e sim.EPConfig) int {
	if e.NoDelay != 0 {
		return 30
	}
	return 100
}

// drawCleanCfg draws a configuration satisfying C18's preconditions.
func drawCleanCfg(t *rapid.T) (sim.CoreCfg, *sim.FateScript) {
	cfg := sim.DrawCoreCfg(t)
	// the 32-bit millisecond clock: anywhere, and in particular so that the
	// transfer runs across its 2^31 / 2^32 wrap points (a process that has been
	// up for 24.8 / 49.7 days): a clean path is clean there too
	if rapid.Bool().Draw(t, "clock") {
		cfg.ClockOff = drawOffset(t, "clk", rapid.SampledFrom([]int{50, 500, 5000, 60_000}).Draw(t, "clkSpan"))
	}
	// window precondition: rcv_wnd >= min(peer's snd_wnd, 32)
	for i := 0; i < 2; i++ {
		need := min(cfg.EP[1-i].SndWnd, 32)
		if cfg.EP[i].RcvWnd < need {
			cfg.EP[i].RcvWnd = need
		}
	}
	// 2D + the peer's acknowledgement delay (its flush interval unless it
	// acknowledges at once) must stay below the sender's minimum RTO
	var maxD int = 1 << 30
	for i := 0; i < 2; i++ {
		peer := cfg.EP[1-i]
		ackDelay := peer.Interval
		if peer.AckNoDelay {
			ackDelay = 0
		}
		budget := minRTO(cfg.EP[i]) - 1 - ackDelay
		if budget < 0 {
			// shorten the peer's interval until the budget exists
			cfg.EP[1-i].Interval = 10
			ackDelay = 10
			if peer.AckNoDelay {
				ackDelay = 0
			}
			budget = minRTO(cfg.EP[i]) - 1 - ackDelay
		}
		maxD = min(maxD, budget/2)
	}
	d := int32(rapid.IntRange(0, max(0, maxD)).Draw(t, "oneWayDelay"))
	return cfg, &sim.FateScript{BaseDelay: [2]int32{d, d}}
}

func TestC18CleanPath(t *testing.T) {
	rec := hx.NewRecorder(t)
	rapid.Check(t, func(rt *rapid.T) {
		cfg, fs := drawCleanCfg(rt)
		total := rapid.SampledFrom([]int{1, 3000, 60_000, 400_000, 2_000_000}).Draw(rt, "total")
		app := drawCoreApps(rt, cfg, 60, total)
		var st sim.CoreStats
		filled := false
		unfinished := false
		rapid.SyncTest(rt, func(rt *rapid.T) {
			before := kcp.DefaultSnmp.Copy()
			s := sim.NewCoreSim(cfg, fs, app)
			count := [2]map[uint32]int{{}, {}}
			s.OnEmit = func(e *sim.Emitted) error {
				for _, sg := range e.Segs {
					if sg.Cmd == wire.CmdPush {
						count[e.From][sg.Sn]++
						if count[e.From][sg.Sn] > 1 {
							return fmt.Errorf("data segment sn=%d transmitted %d times on a clean path (one-way delay %d ms, intervals %d/%d ms, min RTO %d/%d ms)",
								sg.Sn, count[e.From][sg.Sn], fs.BaseDelay[0], cfg.EP[0].Interval, cfg.EP[1].Interval, minRTO(cfg.EP[0]), minRTO(cfg.EP[1]))
						}
					}
				}
				return nil
			}
			s.OnStep = func(what string, ep int) error {
				for i := 0; i < 2; i++ {
					if v := s.K[i].VerifState(false); int(sdiff(v.SndNxt, v.SndUna)) >= min(int(v.SndWnd), 32) {
						filled = true
					}
				}
				return nil
			}
			// a clean path can still be slow (one 26-byte segment per round trip
			// with a send window of 1 and a 5 s flush interval at the peer): the
			// run goes on for up to two days of virtual time, and a transfer that is
			// unfinished even then is counted, not judged - liveness is C02's subject
			err := s.Run(3_600_000)
			if err == nil && !s.Stats.Done {
				err = s.Run(48 * 3_600_000)
			}
			st = s.Stats
			if err == nil && !st.Done {
				unfinished = true
			}
			after := kcp.DefaultSnmp.Copy()
			if err == nil {
				if d := after.RetransSegs - before.RetransSegs; d != 0 {
					err = fmt.Errorf("RetransSegs grew by %d on a clean path (lost %d fast %d early %d)", d, after.LostSegs-before.LostSegs, after.FastRetransSegs-before.FastRetransSegs, after.EarlyRetransSegs-before.EarlyRetransSegs)
				}
			}
			if err != nil {
				rt.Fatalf("C18 clean path: %v\ncase: %+v", err, describeCore(cfg, fs, app))
			}
		})
		cl := []string{"clean_cases"}
		if filled {
			cl = append(cl, "window_filled")
		}
		if st.PushSegs[0]+st.PushSegs[1] >= 100 {
			cl = append(cl, "ge_100_segments")
		}
		for i := 0; i < 2; i++ {
			if cfg.EP[i].Drive == 1 {
				cl = append(cl, "drive_update_check")
				break
			}
		}
		if crosses(cfg.ClockOff, st.EndMs) {
			cl = append(cl, "clock_crosses_a_wrap_point")
		}
		if unfinished {
			cl = append(cl, "unfinished_after_two_days_inconclusive")
		}
		rec.Case(hx.Hash64(cfg, fs.BaseDelay, app), filled && st.PushSegs[0]+st.PushSegs[1] >= 3, cl...)
		if rec.WantSample() {
			d := describeCore(cfg, fs, app)
			d["stats"] = st
			rec.Sample(d)
		}
	})
}

func TestC18RTOBounds(t *testing.T) {
	rec := hx.NewRecorder(t)
	rapid.Check(t, func(rt *rapid.T) {
		cfg := drawHostileCfg(rt)
		nops := rapid.IntRange(1, 150).Draw(rt, "nops")
		var obs hostileObs
		retuned := 0
		rapid.SyncTest(rt, func(rt *rapid.T) {
			h := newHostileRun(cfg)
			lo := uint32(minRTO(cfg.EP))
			// NoDelay may be called again in mid-connection: the floor in force is
			// that of the last call, from the next RTT sample on (the call itself
			// does not touch the current RTO)
			pendingLo := lo
			last := h.k.VerifState(false).RxRto
			h.after = func(h *hostileRun, what string) error {
				st := h.k.VerifState(false)
				if st.RxRto != last && pendingLo != lo {
					lo = pendingLo
				}
				if st.RxRto < lo || st.RxRto > 60000 {
					return fmt.Errorf("retransmission timeout is %d ms, outside [%d, 60000] (srtt=%d rttvar=%d)", st.RxRto, lo, st.RxSrtt, st.RxRttvar)
				}
				if st.RxRto != last {
					h.obs.rtoMoved++
					last = st.RxRto
				}
				return nil
			}
			for i := 0; i < nops && h.err == nil; i++ {
				if rapid.IntRange(0, 11).Draw(rt, "renodelay") == 0 {
					nd := rapid.IntRange(-1, 2).Draw(rt, "nd")
					h.k.NoDelay(nd, rapid.SampledFrom([]int{-1, 10, 100}).Draw(rt, "ndIv"), rapid.IntRange(-1, 2).Draw(rt, "ndRs"), rapid.IntRange(-1, 1).Draw(rt, "ndNc"))
					switch {
					case nd == 0:
						pendingLo = 100
					case nd > 0:
						pendingLo = 30
					}
					lo = min(lo, pendingLo)
					retuned++
				}
				h.step(rt)
			}
			obs = h.obs
			if h.err != nil {
				rt.Fatalf("C18 RTO bound: %v (floor in force %d ms after %d NoDelay call(s) in mid-connection)\nconfig: %+v", h.err, lo, retuned, cfg)
			}
		})
		cl := []string{"rto_cases"}
		if obs.rtoMoved > 0 {
			cl = append(cl, "rto_moved")
		}
		if obs.rtoMoved > 3 {
			cl = append(cl, "rto_moved_gt3")
		}
		if retuned > 0 {
			cl = append(cl, "nodelay_called_again_in_mid_connection")
		}
		rec.Case(hx.Hash64(cfg, nops, obs), obs.rtoMoved > 0, cl...)
		if rec.WantSample() {
			rec.Sample(map[string]any{"cfg": cfg, "nops": nops, "observed": fmt.Sprintf("%+v", obs)})
		}
	})
}

// TestC18SessionRTO: the RTO a session reports stays within bounds under
// generated lossy traffic (dialled sessions: no-delay mode is set before traffic).
func TestC18SessionRTO(t *testing.T) {
	rec := hx.NewRecorder(t)
	rapid.Check(t, func(rt *rapid.T) {
		cfg := drawPairCfg(rt, pairGenOpts{ForceDialed: true, Ciphers: []string{"null", "aes-128", "aes-128-gcm"}})
		fs := sim.DrawFateScript(rt, c01FateOpts)
		app := drawSessApps(rt, pairMSS(cfg), 20, 60_000)
		moved, samples := 0, 0
		rapid.SyncTest(rt, func(rt *rapid.T) {
			s := sim.NewSessSim(rapid.SampledFrom([]uint32{0, 0xfffffff0, 0x7ffffff0}).Draw(rt, "clock"), cfg.EntropySeed)
			p, err := sim.NewPair(s, cfg, app)
			if err != nil {
				rt.Fatalf("setup: %v", err)
			}
			defer p.Finish(nil)
			setPairLinks(s, p, fs)
			last := [2]uint32{}
			p.OnRead = func(r, n int, err error) {
				for e := 0; e < 2; e++ {
					lo := uint32(100)
					if cfg.Opts[e].NoDelay != 0 {
						lo = 30
					}
					rto := p.Sess[e].GetRTO()
					samples++
					if rto != last[e] {
						moved++
						last[e] = rto
					}
					if rto < lo || rto > 60000 {
						s.Fail("session at end %d reports RTO %d ms, outside [%d, 60000] (srtt %d, rttvar %d)", e, rto, lo, p.Sess[e].GetSRTT(), p.Sess[e].GetSRTTVar())
					}
				}
			}
			if err := p.Run(fs.EndTime()+300_000, false); err != nil {
				rt.Fatalf("C18 (session RTO): %v\ncase: %+v", err, describePair(cfg, fs, app))
			}
		})
		rec.Case(hx.Hash64(describePair(cfg, fs, app)), moved > 2, "session_rto_cases")
		if rec.WantSample() {
			d := describePair(cfg, fs, app)
			d["rto_samples"] = samples
			rec.Sample(d)
		}
	})
}
