package props

// C14: concurrent use of one session and of a listener from many goroutines,
// alongside the library's own goroutines and other sessions sharing the pool,
// entropy source and counters, never produces a data race. The race detector
// is the oracle; this file generates the concurrent programs. Real time, the
// genuine TimedSched, in-memory sockets with immediate delivery.

import (
	"fmt"
	"math/rand/v2"
	"net"
	"sync"
	"sync/atomic"
	"testing"
	"time"

	kcp "github.com/xtaci/kcp-go/v5"
	"verif/harness/hx"
	"verif/harness/sim"
	"verif/harness/wire"
)

// the scheduler the library started with, before any simulation replaced it
var realSched = kcp.SystemTimedSched

var c14SessionMethods = []string{"Read", "Write", "WriteBuffers", "SetDeadline", "SetReadDeadline", "SetWriteDeadline", "SetWriteDelay",
	"SetWindowSize", "SetMtu", "SetACKNoDelay", "SetNoDelay", "SetRateLimit", "SetLogger", "SetOOBHandler", "SendOOB", "GetOOBMaxSize",
	"GetConv", "GetRTO", "GetSRTT", "GetSRTTVar", "LocalAddr", "RemoteAddr", "SetReadBuffer", "SetWriteBuffer", "SetDSCP", "Control", "Snmp"}

var c14ListenerMethods = []string{"Accept", "L.SetDeadline", "L.SetReadDeadline", "L.Addr", "L.Control", "L.SetReadBuffer", "L.SetWriteBuffer", "L.SetDSCP", "L.SetWriteDeadline"}

type c14Prog struct {
	Seed       uint64
	Cipher     string
	FEC        [2]int
	Clients    int
	Goroutines int
	Calls      int
	// transport faults: the listener's / first client's socket starts failing
	// once this many calls have been made (0 = not during the calls), and in
	// the close phase the sockets are closed / failed concurrently with the
	// Close calls (CloseFault bit 0: listener socket, bit 1: client sockets)
	FailListenerAt int
	FailClientAt   int
	CloseFault     int
	// RealUDP: loopback UDP sockets instead of the in-memory ones, so that the
	// Linux batch read loops and the batch transmit path run under the detector
	RealUDP bool
	// CloseAt > 0: once this many calls have been made, one session (CloseWhich
	// picks it; 0 is the one half of the goroutines hammer) is closed while the
	// other goroutines keep calling its methods
	CloseAt    int
	CloseWhich int
	// RestartAt > 0: once this many calls have been made, one client closes its
	// session and starts a new conversation (another id) from the same socket,
	// while the goroutines keep calling methods of the session the listener had
	// accepted for the old one (the listener replaces it when the first packet
	// of the new conversation arrives)
	RestartAt    int
	RestartWhich int
	// ReseedIn > 0: the process-wide entropy source is positioned this many
	// draws before its periodic re-seeding
	ReseedIn int
	// ClientNoFEC: FEC is configured at the listener only
	ClientNoFEC bool
}

// c14Sock is a socket the program can make fail.
type c14Sock interface {
	net.PacketConn
	fail()
}

type c14SimSock struct{ *sim.PConn }

func (c c14SimSock) fail() { c.InjectReadError(errC14Socket) }

type c14UDPSock struct{ *net.UDPConn }

// a read deadline in the past makes the pending recvmmsg return an error
func (c c14UDPSock) fail() { c.SetReadDeadline(time.Now().Add(-time.Second)) }

type pairCounter struct {
	mu    sync.Mutex
	last  map[*kcp.UDPSession]map[string]int64 // session -> method -> last call (unix nanos)
	pairs map[string]bool
	hits  int64 // co-scheduling events
}

func (pc *pairCounter) note(s *kcp.UDPSession, m string) {
	now := time.Now().UnixNano()
	pc.mu.Lock()
	defer pc.mu.Unlock()
	l := pc.last[s]
	if l == nil {
		l = map[string]int64{}
		pc.last[s] = l
	}
	for other, at := range l {
		if other != m && now-at < int64(time.Millisecond) {
			a, b := m, other
			if a > b {
				a, b = b, a
			}
			pc.pairs[a+"|"+b] = true
			pc.hits++
		}
	}
	l[m] = now
}

func c14Call(rng *rand.Rand, s *kcp.UDPSession, m string, buf []byte) {
	soon := func() time.Time { return time.Now().Add(time.Duration(rng.IntN(3000)) * time.Microsecond) }
	switch m {
	case "Read":
		s.SetReadDeadline(soon())
		s.Read(buf)
	case "Write":
		s.SetWriteDeadline(soon())
		s.Write(buf[:1+rng.IntN(2000)])
	case "WriteBuffers":
		s.SetWriteDeadline(soon())
		s.WriteBuffers([][]byte{buf[:1+rng.IntN(100)], buf[:1+rng.IntN(1500)]})
	case "SetDeadline":
		s.SetDeadline(soon())
	case "SetReadDeadline":
		s.SetReadDeadline(soon())
	case "SetWriteDeadline":
		s.SetWriteDeadline(soon())
	case "SetWriteDelay":
		s.SetWriteDelay(rng.IntN(2) == 0)
	case "SetWindowSize":
		s.SetWindowSize(16+rng.IntN(200), 16+rng.IntN(200))
	case "SetMtu":
		s.SetMtu(200 + rng.IntN(1400))
	case "SetACKNoDelay":
		s.SetACKNoDelay(rng.IntN(2) == 0)
	case "SetNoDelay":
		s.SetNoDelay(rng.IntN(2), 10+rng.IntN(40), rng.IntN(3), rng.IntN(2))
	case "SetRateLimit":
		s.SetRateLimit(uint32(rng.IntN(2)) * 50_000_000)
	case "SetLogger":
		s.SetLogger(kcp.IKCP_LOG_ALL, func(string, ...any) {})
	case "SetOOBHandler":
		s.SetOOBHandler(func([]byte) {})
	case "SendOOB":
		s.SendOOB(buf[:rng.IntN(64)])
	case "GetOOBMaxSize":
		s.GetOOBMaxSize()
	case "GetConv":
		s.GetConv()
	case "GetRTO":
		s.GetRTO()
	case "GetSRTT":
		s.GetSRTT()
	case "GetSRTTVar":
		s.GetSRTTVar()
	case "LocalAddr":
		_ = s.LocalAddr().String()
	case "RemoteAddr":
		_ = s.RemoteAddr().String()
	case "SetReadBuffer":
		s.SetReadBuffer(65536)
	case "SetWriteBuffer":
		s.SetWriteBuffer(65536)
	case "SetDSCP":
		s.SetDSCP(46)
	case "Control":
		s.Control(func(net.PacketConn) error { return nil })
	case "Snmp":
		switch rng.IntN(3) {
		case 0:
			kcp.DefaultSnmp.Copy()
		case 1:
			kcp.DefaultSnmp.ToSlice()
		default:
			kcp.DefaultSnmp.Reset()
		}
	}
}

var errC14Socket = fmt.Errorf("c14: socket failed")

func c14Run(p c14Prog, pc *pairCounter) (calls int64) {
	rng := rand.New(rand.NewPCG(p.Seed, 14))
	if p.ReseedIn > 0 {
		kcp.VerifEntropySetCount(kcp.VerifEntropy(), kcp.VerifReseedInterval-uint64(p.ReseedIn))
	}
	key := make([]byte, wire.KeyLen(p.Cipher))
	for i := range key {
		key[i] = byte(rng.IntN(256))
	}
	blk := func() kcp.BlockCrypt { b, _ := sim.NewBlockCrypt(p.Cipher, key); return b }
	n := sim.NewNet()
	n.Direct = true
	listen := func(a *net.UDPAddr) c14Sock {
		if p.RealUDP {
			c, err := net.ListenUDP("udp4", &net.UDPAddr{IP: net.IPv4(127, 0, 0, 1)})
			if err != nil {
				panic(err)
			}
			return c14UDPSock{c}
		}
		return c14SimSock{n.Listen(a)}
	}
	lconn := listen(&net.UDPAddr{IP: net.IPv4(127, 0, 0, 1), Port: 7000})
	laddr := lconn.LocalAddr()
	var L *kcp.Listener
	if p.RealUDP {
		L, _ = kcp.ServeConn(blk(), p.FEC[0], p.FEC[1], lconn.(c14UDPSock).UDPConn)
	} else {
		L, _ = kcp.ServeConn(blk(), p.FEC[0], p.FEC[1], lconn.(c14SimSock).PConn)
	}
	var sessions []*kcp.UDPSession
	var conns []c14Sock
	var pconns []net.PacketConn
	var smu sync.Mutex
	for i := 0; i < p.Clients; i++ {
		a := &net.UDPAddr{IP: net.IPv4(127, 0, 1, byte(i+1)), Port: 8000 + i}
		c := listen(a)
		var pc net.PacketConn = c
		if u, ok := c.(c14UDPSock); ok {
			pc = u.UDPConn // the library looks for the concrete type to switch to batch I/O
		} else {
			pc = c.(c14SimSock).PConn
		}
		fecC := p.FEC
		if p.ClientNoFEC {
			fecC = [2]int{} // FEC at the listener only: the clients create their decoders when its first packets arrive
		}
		s, _ := kcp.NewConn3(uint32(1000+i), laddr, blk(), fecC[0], fecC[1], pc)
		// deprecated switches only before traffic (the property excludes them)
		s.SetStreamMode(i%2 == 0)
		s.SetNoDelay(1, 10, 2, 1)
		if !p.ClientNoFEC {
			s.Write([]byte("hello")) // otherwise the first packets travel while the methods are being called
		}
		sessions = append(sessions, s)
		conns = append(conns, c)
		pconns = append(pconns, pc)
	}
	var wg sync.WaitGroup
	stop := make(chan struct{})
	var total atomic.Int64
	// acceptor: accepted sessions join the pool the workers draw from
	wg.Add(1)
	go func() {
		defer wg.Done()
		r := rand.New(rand.NewPCG(p.Seed, 99))
		for {
			select {
			case <-stop:
				return
			default:
			}
			switch m := c14ListenerMethods[r.IntN(len(c14ListenerMethods))]; m {
			case "Accept":
				L.SetReadDeadline(time.Now().Add(2 * time.Millisecond))
				if c, err := L.AcceptKCP(); err == nil {
					smu.Lock()
					sessions = append(sessions, c)
					smu.Unlock()
				} else {
					time.Sleep(50 * time.Microsecond) // a failed socket makes Accept return at once
				}
			case "L.SetDeadline":
				L.SetDeadline(time.Now().Add(time.Millisecond))
			case "L.SetReadDeadline":
				L.SetReadDeadline(time.Now().Add(time.Millisecond))
			case "L.Addr":
				_ = L.Addr().String()
			case "L.Control":
				L.Control(func(net.PacketConn) error { return nil })
			case "L.SetReadBuffer":
				L.SetReadBuffer(65536)
			case "L.SetWriteBuffer":
				L.SetWriteBuffer(65536)
			case "L.SetDSCP":
				L.SetDSCP(46)
			case "L.SetWriteDeadline":
				L.SetWriteDeadline(time.Now().Add(time.Millisecond))
			}
			total.Add(1)
		}
	}()
	for g := 0; g < p.Goroutines; g++ {
		wg.Add(1)
		go func(g int) {
			defer wg.Done()
			r := rand.New(rand.NewPCG(p.Seed, uint64(1000+g)))
			buf := make([]byte, 4096)
			for i := 0; i < p.Calls; i++ {
				smu.Lock()
				s := sessions[r.IntN(len(sessions))]
				smu.Unlock()
				// half of the goroutines hammer one session, the rest roam
				if g%2 == 0 {
					smu.Lock()
					s = sessions[0]
					smu.Unlock()
				}
				m := c14SessionMethods[r.IntN(len(c14SessionMethods))]
				pc.note(s, m)
				c14Call(r, s, m, buf)
				total.Add(1)
			}
		}(g)
	}
	// the transport fails under the running calls
	for _, f := range []struct {
		at int
		c  c14Sock
	}{{p.FailListenerAt, lconn}, {p.FailClientAt, conns[0]}} {
		if f.at <= 0 {
			continue
		}
		wg.Add(1)
		go func() {
			defer wg.Done()
			for total.Load() < int64(f.at) {
				select {
				case <-stop:
					return
				case <-time.After(200 * time.Microsecond):
				}
			}
			f.c.fail()
		}()
	}
	if p.CloseAt > 0 {
		wg.Add(1)
		go func() {
			defer wg.Done()
			for total.Load() < int64(p.CloseAt) {
				select {
				case <-stop:
					return
				case <-time.After(200 * time.Microsecond):
				}
			}
			smu.Lock()
			x := sessions[p.CloseWhich%len(sessions)]
			smu.Unlock()
			x.Close()
		}()
	}
	if p.RestartAt > 0 {
		wg.Add(1)
		go func() {
			defer wg.Done()
			for total.Load() < int64(p.RestartAt) {
				select {
				case <-stop:
					return
				case <-time.After(200 * time.Microsecond):
				}
			}
			k := p.RestartWhich % p.Clients
			smu.Lock()
			old := sessions[k]
			smu.Unlock()
			old.Close()
			fecC := p.FEC
			if p.ClientNoFEC {
				fecC = [2]int{}
			}
			s2, err := kcp.NewConn3(uint32(5000+k), laddr, blk(), fecC[0], fecC[1], pconns[k])
			if err != nil {
				return
			}
			s2.SetNoDelay(1, 10, 2, 1)
			s2.Write([]byte("hello again"))
			smu.Lock()
			sessions = append(sessions, s2)
			smu.Unlock()
		}()
	}
	// traffic keeps flowing: a reader drains whatever arrives on every session
	done := make(chan struct{})
	go func() {
		wgDone := make(chan struct{})
		go func() { wg.Wait(); close(wgDone) }()
		select {
		case <-wgDone:
		case <-time.After(20 * time.Second):
		}
		close(done)
	}()
	// workers finish on their own; then stop the acceptor
	for {
		select {
		case <-done:
		case <-time.After(10 * time.Millisecond):
			if total.Load() < int64(p.Goroutines*p.Calls) {
				continue
			}
		}
		break
	}
	close(stop)
	wg.Wait()
	// Close from several goroutines at once, while traffic may still be in flight
	var cw sync.WaitGroup
	smu.Lock()
	all := append([]*kcp.UDPSession(nil), sessions...)
	smu.Unlock()
	for _, s := range all {
		for k := 0; k < 2; k++ {
			cw.Add(1)
			go func(s *kcp.UDPSession) { defer cw.Done(); s.Close() }(s)
		}
	}
	cw.Add(1)
	go func() { defer cw.Done(); L.Close() }()
	if p.CloseFault&1 != 0 {
		cw.Add(1)
		go func() { defer cw.Done(); lconn.fail() }()
	}
	if p.CloseFault&2 != 0 {
		for _, c := range conns {
			cw.Add(1)
			go func(c c14Sock) { defer cw.Done(); c.Close() }(c)
		}
	}
	cw.Wait()
	lconn.Close()
	for _, c := range conns {
		c.Close()
	}
	time.Sleep(20 * time.Millisecond)
	return total.Load()
}

func TestC14Race(t *testing.T) {
	rec := hx.NewRecorder(t)
	seed := hx.Seed()
	kcp.SystemTimedSched = realSched // once, before any session exists
	budget := time.Duration(hx.EnvInt("C14_SECONDS", 20)) * time.Second
	rng := rand.New(rand.NewPCG(seed, 1414))
	end := time.Now().Add(budget)
	pc := &pairCounter{last: map[*kcp.UDPSession]map[string]int64{}, pairs: map[string]bool{}}
	var calls int64
	n := 0
	ciphers := []string{"null", "aes-128", "salsa20", "aes-128-gcm", "xor", "none", "sm4", "3des", "blowfish", "twofish", "tea", "xtea", "cast5", "aes-256"}
	for time.Now().Before(end) {
		p := c14Prog{
			Seed:       rng.Uint64(),
			Cipher:     ciphers[(n+int(seed))%len(ciphers)],
			Clients:    2 + rng.IntN(4),
			Goroutines: 4 + rng.IntN(20),
			Calls:      20 + rng.IntN(180),
		}
		if rng.IntN(3) > 0 {
			p.FEC = [2]int{1 + rng.IntN(5), 1 + rng.IntN(2)}
		}
		if rng.IntN(4) == 0 {
			p.FailListenerAt = 1 + rng.IntN(p.Goroutines*p.Calls)
		}
		if rng.IntN(4) == 0 {
			p.FailClientAt = 1 + rng.IntN(p.Goroutines*p.Calls)
		}
		p.CloseFault = rng.IntN(4)
		p.RealUDP = rng.IntN(3) == 0
		if rng.IntN(2) == 0 {
			p.CloseAt = 1 + rng.IntN(p.Goroutines*p.Calls)
			p.CloseWhich = rng.IntN(4)
		}
		if rng.IntN(3) == 0 {
			p.RestartAt = 1 + rng.IntN(p.Goroutines*p.Calls)
			p.RestartWhich = rng.IntN(4)
		}
		// every third program starts a few packets before the shared entropy
		// source re-seeds itself (once in 2^24 nonces - days of traffic)
		if rng.IntN(3) == 0 {
			p.ReseedIn = 1 + rng.IntN(400)
		}
		p.ClientNoFEC = p.FEC[0] > 0 && rng.IntN(4) == 0
		pc.mu.Lock()
		before := pc.hits
		pc.mu.Unlock()
		calls += c14Run(p, pc)
		n++
		pc.mu.Lock()
		co := pc.hits - before
		clear(pc.last) // the sessions of a finished program must not stay reachable
		pc.mu.Unlock()
		rec.Case(hx.Hash64(p), co > 0, "cipher_"+p.Cipher, fmt.Sprintf("fec_%v", p.FEC[0] > 0),
			fmt.Sprintf("listener_socket_fails_during_calls_%v", p.FailListenerAt > 0), fmt.Sprintf("client_socket_fails_during_calls_%v", p.FailClientAt > 0),
			fmt.Sprintf("close_fault_%d", p.CloseFault), fmt.Sprintf("real_udp_sockets_%v", p.RealUDP), fmt.Sprintf("close_while_methods_are_being_called_%v", p.CloseAt > 0), fmt.Sprintf("entropy_reseed_during_the_program_%v", p.ReseedIn > 0), fmt.Sprintf("fec_at_the_listener_only_%v", p.ClientNoFEC), fmt.Sprintf("conversation_restarted_during_the_calls_%v", p.RestartAt > 0))
		if rec.WantSample() {
			rec.Sample(p)
		}
	}
	var pairs []string
	for k := range pc.pairs {
		pairs = append(pairs, k)
	}
	rec.Add("n_api_calls", calls)
	rec.Add("n_method_pairs_coscheduled_within_1ms_on_one_session", int64(len(pairs)))
	rec.Set("method_pairs_possible", len(c14SessionMethods)*(len(c14SessionMethods)-1)/2)
	if len(pairs) > 40 {
		pairs = pairs[:40]
	}
	rec.Set("coscheduled_pairs_sample", pairs)
}
