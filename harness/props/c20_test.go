package props

// C20: the exported ring buffer is a FIFO queue for every operation sequence.
// Oracle: a Go slice. Exhaustive prefix-tree search from a family of initial
// layouts, plus long random sequences that cross the growth regimes.

import (
	"fmt"
	"testing"

	kcp "github.com/xtaci/kcp-go/v5"
	"pgregory.net/rapid"
	"verif/harness/hx"
)

type ringModel struct {
	q    []int
	next int // next value to push (never 0, so a zero slot means "released")
}

type ringObs struct {
	wrapped, grew, discardAtEnd bool
}

// ringCheck compares the ring with the model completely.
func ringCheck(r *kcp.RingBuffer[int], m *ringModel) error {
	if r.Len() != len(m.q) {
		return fmt.Errorf("Len=%d model=%d", r.Len(), len(m.q))
	}
	if r.IsEmpty() != (len(m.q) == 0) {
		return fmt.Errorf("IsEmpty=%v with %d elements", r.IsEmpty(), len(m.q))
	}
	if r.Len() > r.MaxLen() {
		return fmt.Errorf("Len %d > MaxLen %d", r.Len(), r.MaxLen())
	}
	if r.IsFull() != (r.Len() == r.MaxLen()) {
		return fmt.Errorf("IsFull=%v Len=%d MaxLen=%d", r.IsFull(), r.Len(), r.MaxLen())
	}
	i := 0
	var err error
	r.ForEach(func(p *int) bool {
		if i >= len(m.q) {
			err = fmt.Errorf("ForEach visits more than %d elements", len(m.q))
			return false
		}
		if *p != m.q[i] {
			err = fmt.Errorf("ForEach[%d]=%d model=%d", i, *p, m.q[i])
			return false
		}
		i++
		return true
	})
	if err != nil {
		return err
	}
	if i != len(m.q) {
		return fmt.Errorf("ForEach visited %d of %d", i, len(m.q))
	}
	j := len(m.q) - 1
	r.ForEachReverse(func(p *int) bool {
		if j < 0 {
			err = fmt.Errorf("ForEachReverse visits more than %d elements", len(m.q))
			return false
		}
		if *p != m.q[j] {
			err = fmt.Errorf("ForEachReverse[%d]=%d model=%d", j, *p, m.q[j])
			return false
		}
		j--
		return true
	})
	if err != nil {
		return err
	}
	if j != -1 {
		return fmt.Errorf("ForEachReverse visited %d of %d", len(m.q)-1-j, len(m.q))
	}
	if p, ok := r.Peek(); ok != (len(m.q) > 0) || (ok && *p != m.q[0]) {
		return fmt.Errorf("Peek ok=%v model len=%d", ok, len(m.q))
	}
	// layout: slots outside [head,tail) hold the zero value
	head, tail, slots := r.VerifLayout()
	n := len(slots)
	if head < 0 || head >= n || tail < 0 || tail >= n {
		return fmt.Errorf("head=%d tail=%d cap=%d out of range", head, tail, n)
	}
	live := make([]bool, n)
	for k, idx := 0, head; k < len(m.q); k, idx = k+1, (idx+1)%n {
		live[idx] = true
	}
	for idx := range slots {
		if !live[idx] && slots[idx] != 0 {
			return fmt.Errorf("slot %d outside [head=%d,tail=%d) retains %d", idx, head, tail, slots[idx])
		}
	}
	return nil
}

const ringAlphabet = 12

var ringOpNames = [ringAlphabet]string{"Push", "Pop", "PeekMutate", "Discard1", "Discard2", "DiscardLen-1", "DiscardLen", "DiscardLen+1", "Clear", "ForEachMutStop2", "ForEachRevMutStop2", "Push3"}

// ringApply performs op on both; returns an error on any disagreement.
func ringApply(r *kcp.RingBuffer[int], m *ringModel, op int, arg int, obs *ringObs) error {
	h0, t0, s0 := r.VerifLayout()
	cap0 := len(s0)
	if h0 > t0 {
		obs.wrapped = true
	}
	discard := func(n int) error {
		want := min(max(n, 0), len(m.q))
		if n > 0 && want < len(m.q) && h0+want == cap0 {
			obs.discardAtEnd = true
		}
		got := r.Discard(n)
		if got != want {
			return fmt.Errorf("Discard(%d)=%d model=%d", n, got, want)
		}
		m.q = m.q[want:]
		return nil
	}
	push := func() {
		m.next++
		r.Push(m.next)
		m.q = append(m.q, m.next)
	}
	switch op {
	case 0:
		push()
	case 1:
		v, ok := r.Pop()
		if ok != (len(m.q) > 0) {
			return fmt.Errorf("Pop ok=%v model len=%d", ok, len(m.q))
		}
		if ok {
			if v != m.q[0] {
				return fmt.Errorf("Pop=%d model=%d", v, m.q[0])
			}
			m.q = m.q[1:]
		} else if v != 0 {
			return fmt.Errorf("Pop on empty returned %d", v)
		}
	case 2:
		p, ok := r.Peek()
		if ok != (len(m.q) > 0) {
			return fmt.Errorf("Peek ok=%v model len=%d", ok, len(m.q))
		}
		if ok {
			if *p != m.q[0] {
				return fmt.Errorf("Peek=%d model=%d", *p, m.q[0])
			}
			*p += 100000
			m.q[0] += 100000
		}
	case 3:
		return discard(1)
	case 4:
		return discard(2)
	case 5:
		return discard(max(0, len(m.q)-1)) // negative counts are outside the documented domain
	case 6:
		return discard(len(m.q))
	case 7:
		return discard(len(m.q) + 1)
	case 8:
		r.Clear()
		m.q = m.q[:0]
	case 9, 10:
		calls := 0
		idx := 0
		step := 1
		if op == 10 {
			idx, step = len(m.q)-1, -1
		}
		var err error
		fn := func(p *int) bool {
			calls++
			if idx < 0 || idx >= len(m.q) {
				err = fmt.Errorf("iterator call %d beyond model", calls)
				return false
			}
			if *p != m.q[idx] {
				err = fmt.Errorf("iterator[%d]=%d model=%d", idx, *p, m.q[idx])
				return false
			}
			*p += 1000000
			m.q[idx] += 1000000
			idx += step
			return calls < 2
		}
		if op == 9 {
			r.ForEach(fn)
		} else {
			r.ForEachReverse(fn)
		}
		if err != nil {
			return err
		}
		if want := min(2, len(m.q)); calls != want {
			return fmt.Errorf("early stop: %d calls, want %d", calls, want)
		}
	case 11:
		push()
		push()
		push()
	case 12: // random tier only: Discard(arg)
		return discard(arg)
	case 13: // random tier only: push arg elements
		for i := 0; i < arg; i++ {
			push()
		}
	case 14: // pop arg elements
		for i := 0; i < arg; i++ {
			v, ok := r.Pop()
			if ok != (len(m.q) > 0) {
				return fmt.Errorf("Pop ok=%v model len=%d", ok, len(m.q))
			}
			if !ok {
				break
			}
			if v != m.q[0] {
				return fmt.Errorf("Pop=%d model=%d", v, m.q[0])
			}
			m.q = m.q[1:]
		}
	}
	if _, _, s1 := r.VerifLayout(); len(s1) != cap0 {
		obs.grew = true
	}
	return nil
}

// ringStep applies op and compares completely; a panic inside the ring
// buffer is reported as a divergence (with the path), not as a crash.
func ringStep(r *kcp.RingBuffer[int], m *ringModel, op, arg int, obs *ringObs) (err error) {
	defer func() {
		if p := recover(); p != nil {
			err = fmt.Errorf("panic: %v", p)
		}
	}()
	if err = ringApply(r, m, op, arg, obs); err != nil {
		return err
	}
	return ringCheck(r, m)
}

type ringLayout struct {
	Size, Offset, Fill int
}

// ringBuild reaches a layout through the API: offset push/pop pairs, then
// fill pushes.
func ringBuild(l ringLayout) (*kcp.RingBuffer[int], *ringModel) {
	r := kcp.NewRingBuffer[int](l.Size)
	m := &ringModel{}
	for i := 0; i < l.Offset; i++ {
		m.next++
		r.Push(m.next)
		r.Pop()
	}
	for i := 0; i < l.Fill; i++ {
		m.next++
		r.Push(m.next)
		m.q = append(m.q, m.next)
	}
	return r, m
}

func ringLayouts(sizes []int, allOffsets bool) []ringLayout {
	var out []ringLayout
	for _, sz := range sizes {
		c := max(sz, 8)
		offs := []int{}
		if allOffsets {
			for o := 0; o < c; o++ {
				offs = append(offs, o)
			}
		} else {
			offs = []int{0, 1, c / 2, c - 2, c - 1}
		}
		for _, o := range offs {
			for _, f := range []int{0, 1, c - 2, c - 1} {
				out = append(out, ringLayout{sz, o, f})
			}
		}
	}
	return out
}

type ringDFS struct {
	t        *testing.T
	visits   int64
	nontriv  int64
	classes  map[string]int64
	path     []int
	layout   ringLayout
	maxDepth int
}

func (d *ringDFS) walk(r *kcp.RingBuffer[int], m *ringModel, depth int, obs ringObs) {
	if depth == d.maxDepth {
		return
	}
	for op := 0; op < ringAlphabet; op++ {
		r2 := r.VerifClone()
		m2 := &ringModel{q: append([]int(nil), m.q...), next: m.next}
		o2 := obs
		d.path = append(d.path, op)
		err := ringStep(r2, m2, op, 0, &o2)
		d.visits++
		if o2.wrapped || o2.grew || o2.discardAtEnd {
			d.nontriv++
		}
		if err != nil {
			names := []string{}
			for _, p := range d.path {
				names = append(names, ringOpNames[p])
			}
			hx.Fail(d.t, map[string]any{"layout": d.layout, "ops": d.path}, "ring buffer diverges from FIFO model: layout=%+v ops=%v: %v", d.layout, names, err)
		}
		d.walk(r2, m2, depth+1, o2)
		d.path = d.path[:len(d.path)-1]
	}
}

func TestC20Exhaustive(t *testing.T) {
	rec := hx.NewRecorder(t)
	var rp struct {
		Layout ringLayout `json:"layout"`
		Ops    []int      `json:"ops"`
	}
	if hx.ReplayFile(&rp) {
		r, m := ringBuild(rp.Layout)
		obs := ringObs{}
		for i, op := range rp.Ops {
			if err := ringStep(r, m, op, 0, &obs); err != nil {
				t.Fatalf("replay step %d (%s): %v", i, ringOpNames[op], err)
			}
		}
		return
	}
	depth := hx.EnvInt("C20_DEPTH", 5)
	depthEmpty := hx.EnvInt("C20_DEPTH_EMPTY", 7)
	depthBig := hx.EnvInt("C20_DEPTH_BIG", 3)
	shard, nshards := hx.Shard()

	type job struct {
		l     ringLayout
		depth int
		kind  string
	}
	var jobs []job
	for _, l := range ringLayouts([]int{0, 8, 9, 16}, true) {
		jobs = append(jobs, job{l, depth, "small"})
	}
	for _, sz := range []int{0, 8, 9, 16} {
		jobs = append(jobs, job{ringLayout{sz, 0, 0}, depthEmpty, "empty-deep"})
	}
	// the two larger growth regimes: 512 -> 1024 (doubling) and 1024 -> 1127 (+10%)
	for _, sz := range []int{512, 1024, 1127} {
		for _, o := range []int{0, 1, sz / 2, sz - 2, sz - 1} {
			for _, f := range []int{sz - 3, sz - 2, sz - 1} {
				jobs = append(jobs, job{ringLayout{sz, o, f}, depthBig, "big"})
			}
		}
	}
	classes := map[string]int64{}
	var visits, nontriv int64
	for i, j := range jobs {
		if i%nshards != shard {
			continue
		}
		r, m := ringBuild(j.l)
		if err := ringCheck(r, m); err != nil {
			hx.Fail(t, map[string]any{"layout": j.l, "ops": []int{}}, "initial layout %+v: %v", j.l, err)
		}
		d := &ringDFS{t: t, layout: j.l, maxDepth: j.depth}
		h, tl, _ := r.VerifLayout()
		d.walk(r, m, 0, ringObs{wrapped: h > tl})
		visits += d.visits
		nontriv += d.nontriv
		classes["layouts_"+j.kind]++
		if h > tl {
			classes["layouts_wrapped_at_start"]++
		}
	}
	rec.Bulk(visits, nontriv)
	for k, v := range classes {
		rec.Class(k, v)
	}
	rec.Exhaustive = true
	rec.Set("depth", depth)
	rec.Set("depth_from_empty", depthEmpty)
	rec.Set("depth_big_layouts", depthBig)
	rec.Set("alphabet", ringOpNames[:])
	rec.Sample(map[string]any{"layout": jobs[shard%len(jobs)].l, "explored": fmt.Sprintf("every op sequence of length<=%d over the %d-symbol alphabet", jobs[shard%len(jobs)].depth, ringAlphabet)})
	rec.Sample(map[string]any{"layout": ringLayout{9, 7, 8}, "example_sequence": []string{"Push", "DiscardLen-1", "ForEachRevMutStop2", "Push3", "Pop"}})
}

func TestC20Random(t *testing.T) {
	rec := hx.NewRecorder(t)
	rapid.Check(t, propC20RandomWith(rec))
}

// propC20RandomWith is the property; rec may be nil (fuzzing).
func propC20RandomWith(rec *hx.Recorder) func(*rapid.T) {
	return func(t *rapid.T) {
		size := rapid.SampledFrom([]int{0, 1, 8, 9, 16, 100, 512, 1000, 1024, 1025, 2000}).Draw(t, "size")
		r := kcp.NewRingBuffer[int](size)
		m := &ringModel{}
		obs := ringObs{}
		// rotate the head to a drawn slot first, so sequences start from any layout
		for k := rapid.IntRange(0, max(size, 8)+3).Draw(t, "offset"); k > 0; k-- {
			r.Push(1)
			r.Pop()
		}
		nops := rapid.IntRange(1, 400).Draw(t, "nops")
		growth := rapid.IntRange(0, 2).Draw(t, "growthProfile") == 0
		crossed := map[int]bool{}
		var trace []string
		for i := 0; i < nops; i++ {
			op := rapid.SampledFrom([]int{0, 0, 0, 1, 1, 2, 3, 4, 5, 6, 7, 8, 9, 10, 11, 12, 12, 13, 13, 13, 14, 14}).Draw(t, "op")
			arg := 0
			switch op {
			case 12:
				arg = rapid.IntRange(0, len(m.q)+2).Draw(t, "n")
			case 13:
				if growth {
					arg = rapid.SampledFrom([]int{1, 5, 7, 8, 9, 60, 250, 600, 1100, 2300}).Draw(t, "n")
				} else {
					arg = rapid.IntRange(1, 4).Draw(t, "n")
				}
			case 14:
				arg = rapid.IntRange(1, max(1, len(m.q))).Draw(t, "n")
			}
			_, _, s0 := r.VerifLayout()
			if err := ringApply(r, m, op, arg, &obs); err != nil {
				t.Fatalf("step %d op=%d arg=%d: %v", i, op, arg, err)
			}
			if _, _, s1 := r.VerifLayout(); len(s1) != len(s0) {
				switch {
				case len(s0) < 1024:
					crossed[1] = true
				default:
					crossed[2] = true
				}
			}
			// the full comparison is O(len): do it always for small rings,
			// and at a drawn subset of steps for big ones
			if len(m.q) < 64 || i%7 == 0 || i == nops-1 {
				if err := ringCheck(r, m); err != nil {
					t.Fatalf("after step %d op=%d arg=%d: %v", i, op, arg, err)
				}
			}
			if len(trace) < 12 {
				name := ""
				switch op {
				case 12:
					name = fmt.Sprintf("Discard(%d)", arg)
				case 13:
					name = fmt.Sprintf("Push x%d", arg)
				case 14:
					name = fmt.Sprintf("Pop x%d", arg)
				default:
					name = ringOpNames[op]
				}
				trace = append(trace, name)
			}
		}
		var cl []string
		if obs.wrapped {
			cl = append(cl, "wrapped")
		}
		if crossed[1] {
			cl = append(cl, "grew_doubling")
		}
		if crossed[2] {
			cl = append(cl, "grew_10pct")
		}
		if obs.discardAtEnd {
			cl = append(cl, "discard_ends_at_array_end")
		}
		cl = append(cl, "rand_cases")
		rec.Case(hx.Hash64(size, nops, trace, m.next, len(m.q)), len(cl) > 1, cl...)
		if rec.WantSample() {
			rec.Sample(map[string]any{"size": size, "nops": nops, "first_ops": trace, "classes": cl})
		}
	}
}

var propC20Random = propC20RandomWith(nil)

// TestC20GrowEveryOffset: growth is the one operation whose code depends on
// where head and tail sit in the backing array, and one array position out of a
// thousand can be the special one. For a family of sizes in all three growth
// regimes (and the sizes the core actually passes through: 64 doubling to 1024,
// then +10%: 1127, 1240, 1364 ...) and for EVERY head offset, a full ring is
// grown by pushing, checked in full against the model, grown a second time,
// then drained.
func TestC20GrowEveryOffset(t *testing.T) {
	rec := hx.NewRecorder(t)
	var rp ringLayout
	replay := hx.ReplayFile(&rp)
	shard, nshards := hx.Shard()
	sizes := []int{0, 1, 7, 8, 9, 10, 15, 16, 17, 33, 63, 64, 65, 100, 128, 255, 256, 512, 513, 1000, 1023, 1024, 1025, 1100, 1127, 1128, 1240, 1364, 1500, 1501, 1652, 2000}
	var evals, nontriv int64
	n := 0
	for _, sz := range sizes {
		c := max(sz, 8)
		for off := 0; off < c; off++ {
			n++
			if replay {
				if rp.Size != sz || rp.Offset != off {
					continue
				}
			} else if n%nshards != shard {
				continue
			}
			for _, fill := range []int{c - 1, c - 2} {
				l := ringLayout{sz, off, fill}
				r, m := ringBuild(l)
				fail := func(stage string, err error) {
					hx.Fail(t, l, "ring of requested size %d, head offset %d, %d elements, %s: %v", sz, off, fill, stage, err)
				}
				if err := ringCheck(r, m); err != nil {
					fail("before growth", err)
				}
				obs := ringObs{}
				// push through two growth steps; the push that grows the ring is
				// followed by a full comparison with the model (contents, order,
				// both iterators, zeroed free slots), the others are plain pushes
				grows := 0
				for i := 0; i < 3*c+40 && grows < 2; i++ {
					if r.IsFull() {
						_, _, sl := r.VerifLayout()
						if err := ringStep(r, m, 0, 0, &obs); err != nil {
							fail(fmt.Sprintf("the push that grows it from %d slots", len(sl)), err)
						}
						grows++
						continue
					}
					m.next++
					r.Push(m.next)
					m.q = append(m.q, m.next)
				}
				if err := ringCheck(r, m); err != nil {
					fail("after two growth steps", err)
				}
				// then drain: every element comes out, in order
				for i, want := range m.q {
					got, ok := r.Pop()
					if !ok || got != want {
						fail("draining after growth", fmt.Errorf("pop no. %d returned %d,%v, the queue model says %d", i+1, got, ok, want))
					}
				}
				m.q = m.q[:0]
				if err := ringCheck(r, m); err != nil {
					fail("after draining", err)
				}
				evals++
				if off > 0 {
					nontriv++
				}
			}
		}
	}
	rec.Bulk(evals, nontriv)
	rec.Exhaustive = true
	rec.Class("layouts_grown_twice", evals)
	rec.Set("sizes", sizes)
	rec.Set("offsets", "every head offset of every size")
	rec.Sample(ringLayout{1024, 104, 1023})
	rec.Sample(ringLayout{1127, 114, 1126})
}
