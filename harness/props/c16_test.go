package props

// C16: a receiver whose FEC ratio differs from the sender's still delivers the
// stream intact, adopts the sender's ratio after an uninterrupted run of at
// most 258+2(d+p) packets and recovers losses from then on; with matching
// ratios no pattern of genuine packets ever changes the ratio.

import (
	"fmt"
	"testing"

	kcp "github.com/xtaci/kcp-go/v5"
	"pgregory.net/rapid"
	"verif/harness/hx"
	"verif/harness/sim"
	"verif/harness/wire"
)

const c16KeyNonOriginal = "C16:non-original-emission-before-convergence"
const c16KeyWrapDelay = "C16:convergence-delayed-across-sender-wrap"

func drawRatio(t *rapid.T, label string, small bool) (int, int) {
	if small || rapid.IntRange(0, 9).Draw(t, label+"small") < 8 {
		return rapid.IntRange(1, 4).Draw(t, label+"d"), rapid.IntRange(1, 4).Draw(t, label+"p")
	}
	d := rapid.IntRange(5, 250).Draw(t, label+"dbig")
	return d, rapid.IntRange(1, min(60, 255-d)).Draw(t, label+"pbig")
}

// perturb applies loss / duplication / local reordering to a packet list.
func perturb(t *rapid.T, pk []fecPkt, label string) (out []fecPkt, lost, dup, swapped int) {
	for i := range pk {
		switch rapid.IntRange(0, 9).Draw(t, label+"fate") {
		case 0, 1:
			lost++
		case 2:
			out = append(out, pk[i], pk[i])
			dup++
		default:
			out = append(out, pk[i])
		}
	}
	for i := 0; i+1 < len(out); i++ {
		if rapid.IntRange(0, 4).Draw(t, label+"swap") == 0 {
			j := min(len(out)-1, i+rapid.IntRange(1, 6).Draw(t, label+"dist"))
			out[i], out[j] = out[j], out[i]
			swapped++
		}
	}
	return
}

func TestC16Convergence(t *testing.T) {
	rec := hx.NewRecorder(t)
	rapid.Check(t, func(rt *rapid.T) {
		ds, ps := drawRatio(rt, "snd.", false)
		dr, pr := drawRatio(rt, "rcv.", false)
		if rapid.IntRange(0, 4).Draw(rt, "lazy") == 0 {
			dr, pr = 1, 1 // what a session without FEC creates when FEC packets arrive
		}
		if ds == dr && ps == pr {
			dr, pr = ds+1, ps
			if dr+pr > 255 {
				dr = ds - 1
			}
		}
		n := ds + ps
		paws := pawsOf(n)
		var start uint32
		switch rapid.IntRange(0, 4).Draw(rt, "startKind") {
		case 4:
			start = min(paws, pawsOf(dr+pr)) - uint32(rapid.IntRange(0, 700).Draw(rt, "belowWrap"))
		case 0:
			start = 0
		case 1:
			start = rapid.Uint32Range(0, paws-uint32(4000)).Draw(rt, "startAny") // not a multiple of the group size
		case 2:
			start = (1<<31)/uint32(n)*uint32(n) - uint32(rapid.IntRange(0, 300).Draw(rt, "beforeHalf"))
		default:
			start = rapid.Uint32Range(0, paws/uint32(n)-100).Draw(rt, "group") * uint32(n)
		}
		st := newFECStream(ds, ps, start/uint32(n)*uint32(n), 0xabcd)
		dec := kcp.VerifNewFECDecoder(dr, pr)
		var allIDs []uint32
		gen := func(groups int) []fecPkt {
			var out []fecPkt
			for g := 0; g < groups; g++ {
				pk := st.group([]int{24 + 40, 24 + 400, 24, 24 + 41}, false)
				for _, p := range pk {
					if !p.Parity {
						allIDs = append(allIDs, p.Seq)
					}
				}
				out = append(out, pk...)
			}
			return out
		}
		nonOriginal, emittedPre := 0, 0
		feed := func(p fecPkt, strict bool) {
			out := dec.Decode(p.Raw)
			for _, r := range out {
				emittedPre++
				if _, err := checkRecovered(r, st.bodies, allIDs, nil); err != nil {
					s := dec.State()
					if !strict && hx.IsKnown(c16KeyNonOriginal) {
						nonOriginal++
					} else {
						rt.Fatalf("C16 (sender %d/%d, receiver %d/%d, start %d): %v (decoder ratio now %d/%d, shouldTune=%v)", ds, ps, dr, pr, start, err, s.DecData, s.DecParity, s.ShouldTune)
					}
				}
			}
			dec.Release(out)
		}
		// phase 1: before convergence, any pattern of loss / duplication / reordering
		pre := gen(rapid.IntRange(0, 1+40/n).Draw(rt, "preGroups"))
		// a start that is not a multiple of the group size: the receiver joins mid-group
		if skip := int(start % uint32(n)); skip < len(pre) {
			pre = pre[skip:]
		}
		pre, lost, dup, swapped := perturb(rt, pre, "pre.")
		for _, p := range pre {
			feed(p, false)
		}
		// phase 2: an uninterrupted in-order run; must converge within 258+2(d+p) packets
		bound := 258 + 2*n
		nxt, _ := st.enc.Next()
		wrapInRun := uint64(nxt)+uint64(bound)+uint64(n) >= uint64(min(paws, pawsOf(dr+pr)))
		if wrapInRun && hx.IsKnown(c16KeyWrapDelay) {
			// listed finding: ids at or above the receiver's own wrap value are
			// dropped before the tuning step, so nothing converges while the run
			// passes through [receiver's wrap value, sender's wrap value)
			bound = 2*bound + n
			rec.Exclude(c16KeyWrapDelay)
		}
		run := gen((bound+n-1)/n + 1)
		converged := -1
		for i, p := range run {
			feed(p, false)
			if s := dec.State(); s.DecData == ds && s.DecParity == ps && !s.ShouldTune {
				converged = i + 1
				run = run[i+1:]
				break
			}
			if i+1 >= bound {
				break
			}
		}
		if converged < 0 {
			s := dec.State()
			rt.Fatalf("C16: receiver %d/%d did not adopt the sender's ratio %d/%d within an uninterrupted run of %d packets (start %d; ratio now %d/%d shouldTune=%v)", dr, pr, ds, ps, bound, start, s.DecData, s.DecParity, s.ShouldTune)
		}
		// finish the group in progress so that the recovery phase starts on a group boundary
		for len(run) > 0 && run[0].Seq%uint32(n) != 0 {
			feed(run[0], true)
			run = run[1:]
		}
		// phase 3: after convergence every group with <= ps losses is recovered (C07's oracle)
		recovered := 0
		for g := 0; g < 3; g++ {
			pk := gen(1)
			drop := rapid.IntRange(0, ds-1).Draw(rt, "drop")
			got := map[uint32]bool{}
			for i, p := range pk {
				if i == drop {
					continue
				}
				out := dec.Decode(p.Raw)
				for _, r := range out {
					id, err := checkRecovered(r, st.bodies, allIDs, func(id uint32) bool { return id == pk[drop].Seq })
					if err != nil {
						rt.Fatalf("C16 after convergence (sender %d/%d): %v", ds, ps, err)
					}
					got[id] = true
					recovered++
				}
				dec.Release(out)
				if s := dec.State(); s.DecData != ds || s.DecParity != ps {
					rt.Fatalf("C16: converged decoder left the sender's ratio %d/%d for %d/%d on genuine in-order packets", ds, ps, s.DecData, s.DecParity)
				}
			}
			if !got[pk[drop].Seq] {
				rt.Fatalf("C16: after adopting %d/%d (converged after %d packets, start %d) a group with one lost data packet (id %d) was not recovered", ds, ps, converged, start, pk[drop].Seq)
			}
		}
		var cl []string
		if lost > 0 {
			cl = append(cl, "loss_before_convergence")
		}
		if dup > 0 {
			cl = append(cl, "dup_before_convergence")
		}
		if swapped > 0 {
			cl = append(cl, "reorder_before_convergence")
		}
		if n > 8 || dr+pr > 8 {
			cl = append(cl, "large_ratio")
		}
		if dr == 1 && pr == 1 {
			cl = append(cl, "lazy_1_1_receiver")
		}
		for i := 0; i < nonOriginal; i++ {
			rec.Exclude(c16KeyNonOriginal)
		}
		rec.Add("n_max_packets_to_converge", 0)
		rec.Case(hx.Hash64(ds, ps, dr, pr, start, len(pre), lost, dup, swapped), (lost > 0 || swapped > 0) && recovered > 0, cl...)
		if rec.WantSample() {
			rec.Sample(map[string]any{"sender": []int{ds, ps}, "receiver": []int{dr, pr}, "start": start, "pre_packets": len(pre), "lost": lost, "dup": dup, "swapped": swapped, "converged_after": converged, "bound": bound})
		}
	})
}

// TestC16Stability: matching ratios; any loss / duplication / reordering of
// genuine packets never changes the ratio nor suspends decoding.
func TestC16Stability(t *testing.T) {
	rec := hx.NewRecorder(t)
	rapid.Check(t, func(rt *rapid.T) {
		d, p := drawRatio(rt, "r.", false)
		n := d + p
		paws := pawsOf(n)
		start := rapid.Uint32Range(0, paws/uint32(n)-1).Draw(rt, "group") * uint32(n)
		if rapid.IntRange(0, 3).Draw(rt, "nearWrap") == 0 {
			start = paws - uint32(n*rapid.IntRange(1, 5).Draw(rt, "groupsBeforeWrap"))
		}
		st := newFECStream(d, p, start, 0x77)
		dec := kcp.VerifNewFECDecoder(d, p)
		dec.Seek(start)
		var pk []fecPkt
		var ids []uint32
		groups := rapid.IntRange(1, 2+300/n).Draw(rt, "groups")
		for g := 0; g < groups; g++ {
			skip := rapid.IntRange(0, 6).Draw(rt, "skipParity") == 0
			for _, x := range st.group([]int{64, 30, 1400, 24}, skip) {
				if !x.Parity {
					ids = append(ids, x.Seq)
				}
				pk = append(pk, x)
			}
		}
		seqd, lost, dup, swapped := perturb(rt, pk, "p.")
		for i, x := range seqd {
			out := dec.Decode(x.Raw)
			for _, r := range out {
				if _, err := checkRecovered(r, st.bodies, ids, nil); err != nil {
					rt.Fatalf("C16 stability (ratio %d/%d): %v", d, p, err)
				}
			}
			dec.Release(out)
			if s := dec.State(); s.DecData != d || s.DecParity != p || s.ShouldTune {
				rt.Fatalf("C16 stability: matching ratio %d/%d, after genuine packet no. %d (id %d, parity=%v) the decoder has ratio %d/%d shouldTune=%v", d, p, i, x.Seq, x.Parity, s.DecData, s.DecParity, s.ShouldTune)
			}
		}
		var cl []string
		if dup > 0 {
			cl = append(cl, "duplicates")
		}
		if swapped > 0 {
			cl = append(cl, "reordered")
		}
		if lost > 0 {
			cl = append(cl, "lost")
		}
		if uint64(start)+uint64(groups*n) >= uint64(paws) {
			cl = append(cl, "wraps")
		}
		rec.Case(hx.Hash64(d, p, start, groups, lost, dup, swapped), dup > 0 && swapped > 0, cl...)
		if rec.WantSample() {
			rec.Sample(map[string]any{"ratio": []int{d, p}, "start": start, "groups": groups, "lost": lost, "dup": dup, "swapped": swapped})
		}
	})
}

var _ = fmt.Sprintf

// TestC16KnownNonOriginal is the reproducer of the listed finding c16KeyNonOriginal.
func TestC16KnownNonOriginal(t *testing.T) {
	rec := hx.NewRecorder(t)
	st := newFECStream(1, 1, 0, 0xabcd)
	var pk []fecPkt
	var ids []uint32
	bySeq := map[uint32]fecPkt{}
	for g := 0; g < 4; g++ {
		for _, p := range st.group([]int{64}, false) {
			pk = append(pk, p)
			bySeq[p.Seq] = p
			if !p.Parity {
				ids = append(ids, p.Seq)
			}
		}
	}
	dec := kcp.VerifNewFECDecoder(2, 2)
	what := ""
	// ids 4 (data) and 7 (parity) are positions 0 and 3 of the receiver's 2+2 group
	for _, i := range []uint32{4, 7} {
		out := dec.Decode(bySeq[i].Raw)
		for _, r := range out {
			if _, err := checkRecovered(r, st.bodies, ids, nil); err != nil {
				what = fmt.Sprintf("sender 1/1, receiver 2/2, packets id 4 (data) and id 7 (parity) fed: %v", err)
			}
		}
		dec.Release(out)
	}
	rec.Case(1, true, "reproducer")
	rec.Case(2, true, "reproducer")
	if what != "" {
		rec.Finding(c16KeyNonOriginal, what)
	}
}

// TestC16KnownWrapDelay is the reproducer of the listed finding c16KeyWrapDelay.
func TestC16KnownWrapDelay(t *testing.T) {
	rec := hx.NewRecorder(t)
	ds, ps := 1, 2
	n := ds + ps
	pawsR := pawsOf(22 + 28)
	st := newFECStream(ds, ps, (pawsR-230)/uint32(n)*uint32(n), 0xabcd)
	dec := kcp.VerifNewFECDecoder(22, 28)
	bound := 258 + 2*n
	converged := -1
	fed := 0
	// one reordered straggler first: the sample window has a gap until 258
	// in-order packets have flushed it - by then the run is inside the zone of
	// ids the receiver drops before tuning
	g0 := st.group([]int{64}, false)
	g1 := st.group([]int{64}, false)
	g2 := st.group([]int{64}, false)
	dec.Release(dec.Decode(g2[0].Raw))
	for _, p := range append(append(g0, g1...), g2...) {
		dec.Release(dec.Decode(p.Raw))
		fed++
	}
	for g := 0; g < 400 && converged < 0; g++ {
		for _, p := range st.group([]int{64}, false) {
			dec.Release(dec.Decode(p.Raw))
			fed++
			if s := dec.State(); s.DecData == ds && s.DecParity == ps && !s.ShouldTune {
				converged = fed
				break
			}
		}
	}
	rec.Case(1, true, "reproducer")
	rec.Case(2, true, "reproducer")
	if converged < 0 {
		t.Fatalf("never converged")
	}
	t.Logf("converged after %d packets (bound %d)", converged, bound)
	if converged > bound {
		rec.Finding(c16KeyWrapDelay, fmt.Sprintf("sender 1/2, receiver 22/28, one straggler then an uninterrupted run starting 230 ids below the receiver's wrap value: ratio adopted after %d packets, bound 258+2(d+p) = %d", converged, bound))
	}
}

// TestC16SessionLazyDecoder: FEC enabled at the sender only. The receiving
// session creates a 1/1 decoder when the first FEC packet arrives; that decoder
// must live on, see an uninterrupted run of the sender's packets, adopt the
// sender's ratio within the stated bound and recover losses from then on - at
// session level, through the real input path (the codec-level tests drive a
// decoder object directly and cannot see what the session does with it).
// The network is loss-free until convergence so that the listed finding about
// emissions before convergence stays out of the picture; then single data
// packets are dropped and must be recovered by FEC.
func TestC16SessionLazyDecoder(t *testing.T) {
	rec := hx.NewRecorder(t)
	rapid.Check(t, func(rt *rapid.T) {
		d := rapid.IntRange(1, 10).Draw(rt, "d")
		q := rapid.IntRange(1, 3).Draw(rt, "p")
		cipher := rapid.SampledFrom([]string{"null", "aes-128", "aes-128-gcm", "salsa20"}).Draw(rt, "cipher")
		key := rapid.SliceOfN(rapid.Byte(), wire.KeyLen(cipher), wire.KeyLen(cipher)).Draw(rt, "key")
		listener := rapid.Bool().Draw(rt, "listener")
		conv := rapid.Uint32().Draw(rt, "conv")
		bound := 258 + 2*(d+q)
		nmsg := bound + 40 + rapid.IntRange(0, 200).Draw(rt, "extra")
		var convergedAfter, recovered int
		var recoveredBefore uint64
		rapid.SyncTest(rt, func(rt *rapid.T) {
			s := sim.NewSessSim(0, 16)
			cfg := sim.PairCfg{Cipher: cipher, Key: key, Conv: conv, Listener: listener, EntropySeed: 16,
				FEC:  [2][2]int{{d, q}, {0, 0}},
				Opts: [2]sim.SessOpts{{SndWnd: 1024, RcvWnd: 1024, NoDelay: 1, Interval: 10, Resend: 2, NC: 1}, {SndWnd: 1024, RcvWnd: 1024, NoDelay: 1, Interval: 10, Resend: 2, NC: 1}}}
			var app [2]sim.AppScript
			for i := 0; i < nmsg; i++ {
				app[0].Writes = append(app[0].Writes, 200) // one small message per datagram: the flush interval separates them
				app[0].GapMs = append(app[0].GapMs, 12)
			}
			p, err := sim.NewPair(s, cfg, app)
			if err != nil {
				rt.Fatalf("setup: %v", err)
			}
			defer p.Finish(nil)
			dataSeen, dropNext := 0, false
			s.OnSent = func(dg *sim.Sent, from, to string, f *sim.Fate) error {
				if from != p.Addr[0].String() {
					return nil
				}
				_, pl, err := p.Crypto.Open(dg.Data)
				if err != nil {
					return err
				}
				fr, err := wire.ParseFrame(pl, true)
				if err != nil {
					return err
				}
				if fr.Type == wire.TypeData || fr.Type == wire.TypeParity {
					dataSeen++
				}
				if y := p.Sess[1]; y != nil && convergedAfter == 0 {
					if st := y.VerifFEC(); st.HasDecoder && st.DecData == d && st.DecParity == q && !st.ShouldTune {
						convergedAfter = dataSeen
						recoveredBefore = kcp.DefaultSnmp.Copy().FECRecovered
					}
				}
				// after convergence: lose one data packet of every third group
				if convergedAfter > 0 && fr.Type == wire.TypeData && int(fr.SeqID)%(d+q) == 0 && (int(fr.SeqID)/(d+q))%3 == 0 && !dropNext {
					*f = sim.Fate{}
				}
				return nil
			}
			err = p.Run(int64(nmsg)*12+60_000, false)
			if err != nil {
				rt.Fatalf("C16 (session, FEC %d/%d at the sender only): %v", d, q, err)
			}
			y := p.Sess[1]
			if y == nil {
				rt.Fatalf("C16 (session): no receiving session")
			}
			st := y.VerifFEC()
			if convergedAfter == 0 {
				rt.Fatalf("C16 (session): after an uninterrupted run of %d FEC packets of a %d/%d sender the receiving session (no FEC configured) has not adopted the ratio (bound 258+2(d+p) = %d): decoder present=%v, ratio %d/%d, tuning pending=%v", dataSeen, d, q, bound, st.HasDecoder, st.DecData, st.DecParity, st.ShouldTune)
			}
			if convergedAfter > bound+2*(d+q) {
				rt.Fatalf("C16 (session): the receiving session adopted the sender's ratio %d/%d only after %d packets, bound %d", d, q, convergedAfter, bound)
			}
			recovered = int(kcp.DefaultSnmp.Copy().FECRecovered - recoveredBefore)
			if !p.Complete() {
				rt.Fatalf("C16 (session): the stream did not arrive completely")
			}
			if recovered == 0 && nmsg-convergedAfter > 4*(d+q) {
				rt.Fatalf("C16 (session): ratio adopted after %d packets, then one data packet of every third group was lost over %d more packets: not one was recovered by FEC", convergedAfter, dataSeen-convergedAfter)
			}
		})
		cl := []string{"cipher_" + cipher, fmt.Sprintf("sender_%d_%d", d, q)}
		if listener {
			cl = append(cl, "receiver_is_an_accepted_session")
		}
		if recovered > 0 {
			cl = append(cl, "losses_recovered_after_convergence")
		}
		rec.Case(hx.Hash64(d, q, cipher, listener, conv, nmsg), recovered > 0, cl...)
		if rec.WantSample() {
			rec.Sample(map[string]any{"sender": []int{d, q}, "receiver": "no FEC configured", "converged_after_packets": convergedAfter, "bound": bound, "recovered_after": recovered, "cipher": cipher})
		}
	})
}
