package props

// A scripted peer that disobeys the protocol: it ignores the advertised
// window, sends sequence numbers anywhere in the 32-bit space, forges
// una / wnd / ts, replays and duplicates. One real KCP core is driven against
// it; C04 (bounds), C05 (no crash) and C18 (RTO bounds) plug in their oracles.

import (
	"fmt"
	"time"

	kcp "github.com/xtaci/kcp-go/v5"
	"pgregory.net/rapid"
	"verif/harness/sim"
	"verif/harness/wire"
)

type hostileCfg struct {
	Conv     uint32
	EP       sim.EPConfig
	Stream   bool
	ClockOff uint32
	SeqSnd   uint32
	SeqRcv   uint32
	MaxData  int // largest forged PUSH payload
}

type hostileObs struct {
	outOfWindow  int // forged PUSH outside the receive window
	inWindow     int
	acksInFlight int // forged ACK for an outstanding sn
	rtoMoved     int
	emitted      int
	steps        int
	fullRcvQ     bool
}

type hostileRun struct {
	cfg     hostileCfg
	k       *kcp.KCP
	sm      *senderModel
	obs     hostileObs
	start   time.Time
	err     error
	inInput bool
	// ackBytes counts the bytes fed to Input since the ack list was last seen empty
	ackBytes int
	// noAdmission switches the sender-side admission oracle off (C05 feeds
	// arbitrary bytes whose effect on the window is not modelled)
	noAdmission bool
	// extra oracle, run after every op
	after func(h *hostileRun, what string) error
}

func drawHostileCfg(t *rapid.T) hostileCfg {
	c := hostileCfg{
		Conv:    rapid.Uint32().Draw(t, "conv"),
		EP:      sim.DrawEPConfig(t, "ep."),
		Stream:  rapid.Bool().Draw(t, "stream"),
		MaxData: 1400,
	}
	if c.EP.MTU != 0 && c.EP.MTU < 100 {
		c.EP.MTU = 100
	}
	edge := []uint32{0, 1, 0x7ffffff0, 0x7fffffff, 0x80000000, 0xfffffff0, 0xffffffff}
	if rapid.Bool().Draw(t, "seqEdge") {
		c.SeqSnd = rapid.SampledFrom(edge).Draw(t, "seqSnd") - uint32(rapid.IntRange(0, 40).Draw(t, "seqSndBack"))
		c.SeqRcv = rapid.SampledFrom(edge).Draw(t, "seqRcv") - uint32(rapid.IntRange(0, 40).Draw(t, "seqRcvBack"))
	}
	if rapid.Bool().Draw(t, "clockEdge") {
		c.ClockOff = rapid.SampledFrom(edge).Draw(t, "clock") - uint32(rapid.IntRange(0, 5000).Draw(t, "clockBack"))
	}
	return c
}

func newHostileRun(cfg hostileCfg) *hostileRun {
	h := &hostileRun{cfg: cfg, sm: newSenderModel(), start: time.Now()}
	kcp.VerifSetClock(cfg.ClockOff)
	k := kcp.NewKCP(cfg.Conv, h.onOutput)
	if cfg.EP.MTU != 0 {
		k.SetMtu(cfg.EP.MTU)
	}
	k.WndSize(cfg.EP.SndWnd, cfg.EP.RcvWnd)
	k.NoDelay(cfg.EP.NoDelay, cfg.EP.Interval, cfg.EP.Resend, cfg.EP.NC)
	k.VerifSetStream(cfg.Stream)
	k.VerifSetSeq(cfg.SeqSnd, cfg.SeqRcv)
	h.k = k
	return h
}

func (h *hostileRun) fail(format string, a ...any) {
	if h.err == nil {
		h.err = fmt.Errorf(format, a...)
	}
}

func (h *hostileRun) onOutput(buf []byte, size int) {
	h.obs.emitted++
	st := h.k.VerifState(false)
	if size <= 0 || size > int(st.Mtu) {
		h.fail("output callback given %d bytes, core MTU is %d", size, st.Mtu)
		return
	}
	segs, err := wire.ParseSegments(buf[:size])
	if err != nil {
		h.fail("emitted datagram does not parse: %v", err)
		return
	}
	free := 0
	if st.RcvQueue < int(st.RcvWnd) {
		free = int(st.RcvWnd) - st.RcvQueue
	}
	for _, sg := range segs {
		if int(sg.Wnd) > free {
			h.fail("segment cmd=%d sn=%d advertises window %d, delivery queue has room for %d", sg.Cmd, sg.Sn, sg.Wnd, free)
		}
		if sg.Cmd != wire.CmdPush || h.sm.seen[sg.Sn] || h.noAdmission {
			continue
		}
		h.sm.seen[sg.Sn] = true
		lim := min(st.SndWnd, h.sm.rmtWnd)
		if st.Nocwnd == 0 {
			cw := max(st.Cwnd, h.sm.prevCwnd)
			if h.inInput {
				cw += 2
			}
			lim = min(lim, cw)
		}
		if out := sdiff(sg.Sn, st.SndUna); out < 0 || uint32(out) >= lim {
			h.fail("new sn %d put on the wire with %d segments outstanding; limit min(snd_wnd=%d, peer window last delivered=%d, cwnd=%d nc=%d)", sg.Sn, out, st.SndWnd, h.sm.rmtWnd, st.Cwnd, st.Nocwnd)
		}
	}
}

func (h *hostileRun) done(what string) {
	h.obs.steps++
	if h.err != nil {
		return
	}
	if err := windowInvariants(h.k); err != nil {
		h.fail("after %s: %v", what, err)
		return
	}
	st := h.k.VerifState(false)
	if st.AckList == 0 {
		h.ackBytes = 0
	}
	if st.RcvQueue == int(st.RcvWnd) {
		h.obs.fullRcvQ = true
	}
	h.sm.prevCwnd = st.Cwnd
	if h.after != nil {
		if err := h.after(h, what); err != nil {
			h.fail("after %s: %v", what, err)
		}
	}
}

// drawSeq draws a 32-bit value around base, at a boundary, or anywhere.
func drawSeq(t *rapid.T, label string, base uint32, span int) uint32 {
	switch rapid.IntRange(0, 9).Draw(t, label+"k") {
	case 0:
		return rapid.Uint32().Draw(t, label+"any")
	case 1:
		return rapid.SampledFrom([]uint32{0, 1, 0x7fffffff, 0x80000000, 0x80000001, 0xffffffff}).Draw(t, label+"edge")
	case 2:
		return base + 0x80000000 + uint32(rapid.IntRange(-2, 2).Draw(t, label+"half"))
	case 3:
		return base - uint32(rapid.IntRange(1, 3*span+3).Draw(t, label+"back"))
	default:
		return base + uint32(rapid.IntRange(0, span+2).Draw(t, label+"fwd"))
	}
}

// drawForgedDatagram draws 1..4 segments aimed at the core's current state.
func (h *hostileRun) drawForgedDatagram(t *rapid.T) []wire.Segment {
	st := h.k.VerifState(false)
	now := kcp.VerifNowMs()
	n := rapid.IntRange(1, 4).Draw(t, "nsegs")
	var segs []wire.Segment
	for i := 0; i < n; i++ {
		sg := wire.Segment{Conv: h.cfg.Conv}
		if rapid.IntRange(0, 30).Draw(t, "badconv") == 0 {
			sg.Conv ^= 1 << uint(rapid.IntRange(0, 31).Draw(t, "convbit"))
		}
		sg.Cmd = uint8(rapid.SampledFrom([]int{81, 81, 81, 82, 82, 83, 84}).Draw(t, "cmd"))
		sg.Frg = uint8(rapid.SampledFrom([]int{0, 0, 0, 1, 2, 255}).Draw(t, "frg"))
		sg.Wnd = uint16(rapid.SampledFrom([]int{0, 0, 1, 2, 5, 32, 128, 65535}).Draw(t, "wnd"))
		switch rapid.IntRange(0, 5).Draw(t, "tsk") {
		case 0:
			sg.Ts = rapid.Uint32().Draw(t, "tsany")
		case 1:
			sg.Ts = now + uint32(rapid.IntRange(1, 100000).Draw(t, "tsfuture"))
		case 2:
			sg.Ts = now - 0x80000000 + uint32(rapid.IntRange(-2, 2).Draw(t, "tshalf"))
		case 3:
			sg.Ts = 0
		default:
			sg.Ts = now - uint32(rapid.IntRange(0, 70000).Draw(t, "tsback"))
		}
		sg.Una = drawSeq(t, "una", st.SndUna, int(sdiff(st.SndNxt, st.SndUna)))
		switch sg.Cmd {
		case wire.CmdPush:
			sg.Sn = drawSeq(t, "psn", st.RcvNxt, int(st.RcvWnd))
			ln := rapid.SampledFrom([]int{0, 1, 2, 100, int(st.Mss) - 1, int(st.Mss), int(st.Mss) + 1, h.cfg.MaxData}).Draw(t, "plen")
			ln = max(0, min(ln, h.cfg.MaxData))
			sg.Data = make([]byte, ln)
			for j := range sg.Data {
				sg.Data[j] = byte(j + int(sg.Sn))
			}
			if d := sdiff(sg.Sn, st.RcvNxt); d < 0 || d >= int32(st.RcvWnd) {
				h.obs.outOfWindow++
			} else {
				h.obs.inWindow++
			}
		case wire.CmdAck:
			sg.Sn = drawSeq(t, "asn", st.SndUna, int(sdiff(st.SndNxt, st.SndUna)))
			if d := sdiff(sg.Sn, st.SndUna); d >= 0 && sdiff(sg.Sn, st.SndNxt) < 0 {
				h.obs.acksInFlight++
			}
		default:
			sg.Sn = rapid.SampledFrom([]uint32{0, 0, 7, 0xffffffff}).Draw(t, "wsn")
		}
		segs = append(segs, sg)
	}
	return segs
}

// step performs one drawn operation.
func (h *hostileRun) step(t *rapid.T) {
	op := rapid.SampledFrom([]string{"input", "input", "input", "input", "send", "recv", "flush", "sleep", "sleep", "replay"}).Draw(t, "op")
	switch op {
	case "input":
		segs := h.drawForgedDatagram(t)
		var raw []byte
		for _, sg := range segs {
			raw = sg.Append(raw)
		}
		h.input(raw, rapid.Bool().Draw(t, "ackNoDelay"))
	case "replay":
		// a datagram made of one valid in-order PUSH, to keep the receive side moving
		st := h.k.VerifState(false)
		sg := wire.Segment{Conv: h.cfg.Conv, Cmd: wire.CmdPush, Sn: st.RcvNxt, Una: st.SndUna, Wnd: uint16(rapid.SampledFrom([]int{0, 3, 32}).Draw(t, "rwnd")), Ts: kcp.VerifNowMs(), Data: make([]byte, rapid.IntRange(0, 50).Draw(t, "rlen"))}
		h.input(sg.Append(nil), false)
	case "send":
		if h.k.WaitSnd() < 3*h.cfg.EP.SndWnd+4 {
			n := rapid.SampledFrom([]int{1, 10, 1000, 3000, 9000}).Draw(t, "sendn")
			if !h.cfg.Stream {
				n = min(n, h.cfg.EP.RcvWnd*int(h.k.VerifState(false).Mss))
			}
			h.k.Send(make([]byte, n))
			h.done("Send")
		}
	case "recv":
		buf := make([]byte, rapid.SampledFrom([]int{1, 100, 1500, 70000}).Draw(t, "recvbuf"))
		h.k.Recv(buf)
		h.done("Recv")
	case "flush":
		if h.cfg.EP.Drive == 0 {
			h.k.VerifFlush()
			h.done("flush")
		} else {
			h.k.Update()
			h.done("Update")
		}
	case "sleep":
		time.Sleep(time.Duration(rapid.SampledFrom([]int{1, 10, 50, 200, 1000, 10000, 70000}).Draw(t, "ms")) * time.Millisecond)
	}
}

func (h *hostileRun) input(raw []byte, ackNoDelay bool) {
	h.ackBytes += len(raw)
	h.sm.deliver(h.cfg.Conv, raw)
	h.inInput = true
	h.k.Input(raw, kcp.IKCP_PACKET_REGULAR, ackNoDelay)
	h.inInput = false
	h.done("Input")
}
