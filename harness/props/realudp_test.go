package props

// E7: real sessions over real loopback UDP sockets in real time.
//
// The simulated PacketConn of the other engines never reaches the Linux batch
// paths (recvmmsg read loops of sessions and listeners, sendmmsg transmit), the
// constructors that own their socket (DialWithOptions / ListenWithOptions) or
// the code that closes an owned socket. This engine does: a client, a
// listener and, between them, a relay that applies per-datagram fates (drop,
// duplicate, delay) chosen by a hash of a drawn seed. Because it runs in real
// time only schedule-insensitive oracles are used:
//
//	content   (C01) every Read returns the next bytes of what the peer wrote
//	intruder  (C11) datagrams from a third address - correctly sealed, right
//	          conversation id - change nothing in a dialled session
//	leak      (C15) after Close the process is back to its baseline of open
//	          file descriptors and of goroutines running library code
//
// A transfer that has not finished within its (generous) real-time budget is
// counted as inconclusive, never as a violation.

import (
	"crypto/rand"
	"encoding/binary"
	"fmt"
	"net"
	"os"
	"runtime"
	"strings"
	"sync"
	"sync/atomic"
	"testing"
	"time"

	kcp "github.com/xtaci/kcp-go/v5"
	"pgregory.net/rapid"
	"verif/harness/hx"
	"verif/harness/sim"
	"verif/harness/wire"
)

type realCfg struct {
	Cipher     string
	Key        []byte
	FEC        [2]int
	Stream     bool
	V6         bool
	Owned      bool // DialWithOptions / ListenWithOptions (the library owns the sockets)
	AckNoDelay bool
	WriteDelay bool
	Conv       uint32
	LossPm     int // per mille of datagrams dropped by the relay
	DupPm      int
	DelayPm    int
	MaxDelayMs int
	Seed       uint64
	Writes     [2][]int
	ReadBuf    [2]int
	Intruder   bool
	CloseOrder int  // 0 client,server,listener; 1 listener first; 2 server first; 3 all at once
	CloseEarly bool // close while the transfer is still running
	Storm      bool // new peers keep contacting the listener while everything is being closed
}

type realFailure struct {
	Kind string // content | intruder | leak | setup
	Msg  string
}

type realResult struct {
	Completed    bool
	Relayed      int64
	Dropped      int64
	Duplicated   int64
	IntruderSent int
	IntruderSeen uint64
	Fails        []realFailure
}

func (r *realResult) fail(kind, format string, a ...any) {
	r.Fails = append(r.Fails, realFailure{kind, fmt.Sprintf(format, a...)})
}

func realMix(x uint64) uint64 {
	x += 0x9e3779b97f4a7c15
	x = (x ^ (x >> 30)) * 0xbf58476d1ce4e5b9
	x = (x ^ (x >> 27)) * 0x94d049bb133111eb
	return x ^ (x >> 31)
}

// udpRelay forwards datagrams between one client and the server, applying fates.
type udpRelay struct {
	front  *net.UDPConn // the client talks to this socket
	back   *net.UDPConn // the server sees this socket as the client
	server *net.UDPAddr
	cfg    *realCfg
	res    *realResult
	client atomic.Value // *net.UDPAddr
	wg     sync.WaitGroup
	stop   chan struct{}
	idx    [2]atomic.Uint64
	rel    atomic.Int64
	drop   atomic.Int64
	dup    atomic.Int64
}

func (r *udpRelay) forward(dir int, data []byte) {
	i := r.idx[dir].Add(1)
	h := realMix(r.cfg.Seed ^ uint64(dir)<<63 ^ i)
	if int(h%1000) < r.cfg.LossPm {
		r.drop.Add(1)
		return
	}
	copies := 1
	if int((h>>10)%1000) < r.cfg.DupPm {
		copies = 2
		r.dup.Add(1)
	}
	for k := 0; k < copies; k++ {
		var d time.Duration
		if r.cfg.MaxDelayMs > 0 && int((h>>20)%1000) < r.cfg.DelayPm {
			d = time.Duration((h>>32+uint64(k)*7)%uint64(r.cfg.MaxDelayMs)+1) * time.Millisecond
		}
		send := func() {
			if dir == 0 {
				r.back.WriteToUDP(data, r.server)
			} else if c, ok := r.client.Load().(*net.UDPAddr); ok {
				r.front.WriteToUDP(data, c)
			}
			r.rel.Add(1)
		}
		if d == 0 {
			send()
			continue
		}
		r.wg.Add(1)
		go func() {
			defer r.wg.Done()
			select {
			case <-time.After(d):
				send()
			case <-r.stop:
			}
		}()
	}
}

func (r *udpRelay) run() {
	for dir, c := range []*net.UDPConn{r.front, r.back} {
		r.wg.Add(1)
		go func(dir int, c *net.UDPConn) {
			defer r.wg.Done()
			buf := make([]byte, 2048)
			for {
				n, from, err := c.ReadFromUDP(buf)
				if err != nil {
					return
				}
				if dir == 0 {
					r.client.Store(from)
				}
				r.forward(dir, append([]byte(nil), buf[:n]...))
			}
		}(dir, c)
	}
}

func (r *udpRelay) close() {
	close(r.stop)
	r.front.Close()
	r.back.Close()
	r.wg.Wait()
}

func realOpenFDs() int {
	ents, err := os.ReadDir("/proc/self/fd")
	if err != nil {
		return -1
	}
	return len(ents) - 1 // the directory handle itself
}

// realLibGoroutines returns the stacks of goroutines that are running library
// code other than the process-wide scheduler's own workers.
func realLibGoroutines() []string {
	buf := make([]byte, 1<<20)
	for {
		n := runtime.Stack(buf, true)
		if n < len(buf) {
			buf = buf[:n]
			break
		}
		buf = make([]byte, 2*len(buf))
	}
	var out []string
	for _, g := range strings.Split(string(buf), "\n\n") {
		if !strings.Contains(g, "github.com/xtaci/kcp-go/v5.") {
			continue
		}
		if strings.Contains(g, "(*TimedSched).sched") || strings.Contains(g, "(*TimedSched).prepend") {
			continue
		}
		if strings.Contains(g, "verif/harness/props.") {
			continue // a harness goroutine that happens to be inside a library call
		}
		out = append(out, g)
	}
	return out
}

func realLoop(v6 bool) string {
	if v6 {
		return "[::1]:0"
	}
	return "127.0.0.1:0"
}

func realListenUDP(v6 bool) (*net.UDPConn, error) {
	a, _ := net.ResolveUDPAddr("udp", realLoop(v6))
	nw := "udp4"
	if v6 {
		nw = "udp6"
	}
	return net.ListenUDP(nw, a)
}

func realTune(s *kcp.UDPSession, cfg *realCfg) {
	s.SetNoDelay(1, 10, 2, 1)
	s.SetWindowSize(128, 128)
	s.SetStreamMode(cfg.Stream)
	s.SetACKNoDelay(cfg.AckNoDelay)
	s.SetWriteDelay(cfg.WriteDelay)
}

// runRealCase executes one case and returns what it saw.
func runRealCase(cfg *realCfg, budget time.Duration) (res realResult) {
	kcp.SystemTimedSched = realSched
	baseFD := realOpenFDs()
	baseG := len(realLibGoroutines())
	crypto, err := wire.NewCrypto(cfg.Cipher, cfg.Key)
	if err != nil {
		res.fail("setup", "crypto: %v", err)
		return
	}
	blk := func() kcp.BlockCrypt { b, _ := sim.NewBlockCrypt(cfg.Cipher, cfg.Key); return b }
	var mine []interface{ Close() error } // sockets this harness owns
	closeMine := func() {
		for _, c := range mine {
			c.Close()
		}
		mine = nil
	}
	// listener
	var L *kcp.Listener
	if cfg.Owned {
		L, err = kcp.ListenWithOptions(realLoop(cfg.V6), blk(), cfg.FEC[0], cfg.FEC[1])
	} else {
		var lc *net.UDPConn
		if lc, err = realListenUDP(cfg.V6); err == nil {
			mine = append(mine, lc)
			L, err = kcp.ServeConn(blk(), cfg.FEC[0], cfg.FEC[1], lc)
		}
	}
	if err != nil {
		closeMine()
		res.fail("setup", "listen: %v", err)
		return
	}
	srvAddr := L.Addr().(*net.UDPAddr)
	// relay
	front, e1 := realListenUDP(cfg.V6)
	back, e2 := realListenUDP(cfg.V6)
	if e1 != nil || e2 != nil {
		res.fail("setup", "relay sockets: %v %v", e1, e2)
		L.Close()
		closeMine()
		return
	}
	relay := &udpRelay{front: front, back: back, server: srvAddr, cfg: cfg, res: &res, stop: make(chan struct{})}
	relay.run()
	// client
	var cli *kcp.UDPSession
	var cliSock *net.UDPConn
	frontAddr := front.LocalAddr().(*net.UDPAddr)
	if cfg.Owned {
		cli, err = kcp.DialWithOptions(frontAddr.String(), blk(), cfg.FEC[0], cfg.FEC[1])
	} else {
		if cliSock, err = realListenUDP(cfg.V6); err == nil {
			mine = append(mine, cliSock)
			cli, err = kcp.NewConn3(cfg.Conv, frontAddr, blk(), cfg.FEC[0], cfg.FEC[1], cliSock)
		}
	}
	if err != nil {
		res.fail("setup", "dial: %v", err)
		relay.close()
		L.Close()
		closeMine()
		return
	}
	realTune(cli, cfg)
	mss := sim.SessionMSS(0, crypto, cfg.FEC[0] > 0 && cfg.FEC[1] > 0)

	var failMu sync.Mutex
	fail := func(kind, format string, a ...any) {
		failMu.Lock()
		res.fail(kind, format, a...)
		failMu.Unlock()
	}
	stop := make(chan struct{})
	var stopOnce sync.Once
	halt := func() { stopOnce.Do(func() { close(stop) }) }
	stopped := func() bool {
		select {
		case <-stop:
			return true
		default:
			return false
		}
	}
	var srv *kcp.UDPSession
	var extra []*kcp.UDPSession // sessions the listener created for the intruder
	var apps sync.WaitGroup
	srvReady := make(chan struct{})
	intruderDone := make(chan struct{})

	writer := func(w int, s *kcp.UDPSession) {
		defer apps.Done()
		var off int64
		for _, sz := range cfg.Writes[w] {
			b := make([]byte, sz)
			sim.FillPayload(b, uint32(w+1), off)
			s.SetWriteDeadline(time.Now().Add(budget))
			n, err := s.Write(b)
			if err != nil {
				if !stopped() {
					halt() // budget used up or the transport failed: inconclusive, not a content failure
				}
				return
			}
			if n != sz {
				fail("content", "Write(%d) at end %d returned %d", sz, w, n)
				halt()
				return
			}
			off += int64(sz)
		}
	}
	reader := func(w int, s *kcp.UDPSession) { // reads what end w wrote
		defer apps.Done()
		var total, got int64
		for _, sz := range cfg.Writes[w] {
			total += int64(sz)
		}
		want := cfg.ReadBuf[1-w]
		buf := make([]byte, want)
		wi, inMsg := 0, 0 // message mode: index of the write being read, bytes of it consumed
		for got < total {
			s.SetReadDeadline(time.Now().Add(budget))
			n, err := s.Read(buf)
			if err != nil {
				if !stopped() {
					halt()
				}
				return
			}
			if n <= 0 || n > want {
				fail("content", "Read with a %d-byte buffer returned %d", want, n)
				halt()
				return
			}
			if i := sim.CheckPayload(buf[:n], uint32(w+1), got); i >= 0 {
				fail("content", "reader of end %d's stream: byte at offset %d is %#x, writer wrote %#x (real UDP, batch I/O paths)", w, got+int64(i), buf[i], sim.Payload(uint32(w+1), got+int64(i)))
				halt()
				return
			}
			if !cfg.Stream {
				// every write is at most one mss: one message each
				rest := cfg.Writes[w][wi] - inMsg
				if n != min(rest, want) {
					fail("content", "message mode: Read with a %d-byte buffer returned %d bytes, the message in progress has %d left", want, n, rest)
					halt()
					return
				}
				inMsg += n
				if inMsg == cfg.Writes[w][wi] {
					wi, inMsg = wi+1, 0
				}
			}
			got += int64(n)
		}
	}

	// the client speaks first; its reader starts at once, the server's flows
	// once the session is accepted (and the intruder, if any, has had its turn)
	apps.Add(2)
	go writer(0, cli)
	go reader(1, cli)
	apps.Add(1)
	go func() {
		defer apps.Done()
		L.SetReadDeadline(time.Now().Add(budget))
		c, err := L.AcceptKCP()
		if err != nil {
			halt()
			close(srvReady)
			return
		}
		realTune(c, cfg)
		srv = c
		close(srvReady)
		<-intruderDone
		if stopped() {
			return
		}
		apps.Add(2)
		go writer(1, c)
		go reader(0, c)
	}()

	// intruder: sealed datagrams with the client's conversation id from a third socket
	go func() {
		defer close(intruderDone)
		<-srvReady
		if !cfg.Intruder || srv == nil {
			return
		}
		x, err := realListenUDP(cfg.V6)
		if err != nil {
			return
		}
		defer x.Close()
		// a second intruder that shares the peer's PORT on another loopback address
		// (a source filter that compares ports only lets it through)
		var x2 *net.UDPConn
		if !cfg.V6 {
			x2, _ = net.ListenUDP("udp4", &net.UDPAddr{IP: net.IPv4(127, 0, 0, 2), Port: frontAddr.Port})
			if x2 != nil {
				defer x2.Close()
			}
		}
		cliPort := 0
		if cliSock != nil {
			cliPort = cliSock.LocalAddr().(*net.UDPAddr).Port
		} else {
			cliPort = cli.LocalAddr().(*net.UDPAddr).Port
		}
		target := &net.UDPAddr{IP: frontAddr.IP, Port: cliPort}
		before := kcp.DefaultSnmp.Copy().InErrs
		conv := cli.GetConv()
		const n = 24
		for sn := 0; sn < n; sn++ {
			junk := make([]byte, 64)
			for i := range junk {
				junk[i] = 0xEE
			}
			seg := wire.Segment{Conv: conv, Cmd: 81, Wnd: 128, Sn: uint32(sn), Una: 0, Data: junk}.Append(nil)
			var nonce [16]byte
			rand.Read(nonce[:])
			binary.LittleEndian.PutUint32(nonce[:], uint32(sn))
			x.WriteToUDP(crypto.Seal(nonce[:], seg), target)
			res.IntruderSent++
			if x2 != nil {
				nonce[5] ^= 0x55
				x2.WriteToUDP(crypto.Seal(nonce[:], seg), target)
			}
		}
		// they must all be counted as input errors and leave the core untouched
		deadline := time.Now().Add(5 * time.Second)
		for time.Now().Before(deadline) {
			var rcvNxt uint32
			var queued int
			cli.VerifWithKCP(func(k *kcp.KCP) {
				st := k.VerifState(false)
				rcvNxt, queued = st.RcvNxt, st.RcvQueue+st.RcvBuf
			})
			if rcvNxt != 0 || queued != 0 {
				fail("intruder", "a dialled session took datagrams from %v, which is not its peer %v: rcv_nxt=%d, %d segment(s) queued, before the peer had sent any data", x.LocalAddr(), frontAddr, rcvNxt, queued)
				halt()
				return
			}
			res.IntruderSeen = kcp.DefaultSnmp.Copy().InErrs - before
			if res.IntruderSeen >= n {
				break
			}
			time.Sleep(2 * time.Millisecond)
		}
		// the listener: the same packets from the third address make a session of their own
		for sn := 0; sn < 4; sn++ {
			seg := wire.Segment{Conv: conv, Cmd: 81, Wnd: 128, Sn: uint32(sn), Data: []byte{0xEE, 0xEE, 0xEE}}.Append(nil)
			var nonce [16]byte
			rand.Read(nonce[:])
			x.WriteToUDP(crypto.Seal(nonce[:], seg), srvAddr)
		}
		L.SetReadDeadline(time.Now().Add(2 * time.Second))
		if c, err := L.AcceptKCP(); err == nil {
			extra = append(extra, c)
		}
	}()

	done := make(chan struct{})
	go func() {
		<-srvReady
		<-intruderDone
		apps.Wait()
		close(done)
	}()
	if cfg.CloseEarly {
		select {
		case <-done:
		case <-time.After(time.Duration(5+realMix(cfg.Seed)%60) * time.Millisecond):
		}
		halt()
	} else {
		select {
		case <-done:
			res.Completed = !stopped()
		case <-time.After(budget + 5*time.Second):
		}
		halt()
	}

	// close everything, in the drawn order
	<-srvReady
	stormDone := make(chan struct{})
	if cfg.Storm {
		// first packets of new conversations from a handful of addresses: the
		// listener is setting sessions up while it is being closed
		var socks []*net.UDPConn
		for i := 0; i < 8; i++ {
			if x, err := realListenUDP(cfg.V6); err == nil {
				socks = append(socks, x)
				mine = append(mine, x)
			}
		}
		go func() {
			defer close(stormDone)
			var nonce [16]byte
			for round := 0; round < 40; round++ {
				for i, x := range socks {
					seg := wire.Segment{Conv: 0x70000000 + uint32(round*16+i), Cmd: 81, Wnd: 128, Sn: 0, Data: []byte{1, 2, 3}}.Append(nil)
					rand.Read(nonce[:])
					x.WriteToUDP(crypto.Seal(nonce[:], seg), srvAddr)
				}
				time.Sleep(time.Duration(realMix(cfg.Seed+uint64(round))%300) * time.Microsecond)
			}
		}()
		time.Sleep(time.Duration(realMix(cfg.Seed^77)%3000) * time.Microsecond)
	} else {
		close(stormDone)
	}
	closers := []func(){func() { cli.Close() }, func() {
		if srv != nil {
			srv.Close()
		}
	}, func() { L.Close() }}
	switch cfg.CloseOrder {
	case 1:
		closers = []func(){closers[2], closers[0], closers[1]}
	case 2:
		closers = []func(){closers[1], closers[0], closers[2]}
	}
	if cfg.CloseOrder == 3 {
		var cw sync.WaitGroup
		for _, f := range closers {
			cw.Add(1)
			go func(f func()) { defer cw.Done(); f() }(f)
		}
		cw.Wait()
	} else {
		for _, f := range closers {
			f()
		}
	}
	<-intruderDone
	<-stormDone
	for _, c := range extra {
		c.Close()
	}
	// a session handed out by an Accept that raced with the shutdown
	for {
		L.SetReadDeadline(time.Now().Add(10 * time.Millisecond))
		c, err := L.AcceptKCP()
		if err != nil {
			break
		}
		c.Close()
	}
	<-done
	relay.close()
	closeMine()
	res.Relayed, res.Dropped, res.Duplicated = relay.rel.Load(), relay.drop.Load(), relay.dup.Load()

	// back to the baseline?
	deadline := time.Now().Add(20 * time.Second)
	for {
		fds, gs := realOpenFDs(), realLibGoroutines()
		if fds <= baseFD && len(gs) <= baseG {
			break
		}
		if time.Now().After(deadline) {
			if len(gs) > baseG {
				res.fail("leak", "20 s after everything was closed %d goroutine(s) still run library code (baseline %d), e.g.\n%s", len(gs), baseG, gs[0])
			}
			if fds > baseFD {
				res.fail("leak", "20 s after everything was closed the process holds %d file descriptors, %d before the case (owned sockets: %v)", fds, baseFD, cfg.Owned)
			}
			break
		}
		time.Sleep(5 * time.Millisecond)
	}
	_ = mss
	return
}

func drawRealCfg(t *rapid.T, intruder bool, maxBytes int) *realCfg {
	c := &realCfg{}
	c.Cipher = rapid.SampledFrom([]string{"null", "aes-128", "salsa20", "aes-128-gcm", "xor", "none", "sm4", "blowfish"}).Draw(t, "cipher")
	c.Key = rapid.SliceOfN(rapid.Byte(), keyLenFor(c.Cipher), keyLenFor(c.Cipher)).Draw(t, "key")
	if rapid.IntRange(0, 2).Draw(t, "fec") > 0 {
		c.FEC = [2]int{rapid.IntRange(1, 6).Draw(t, "ds"), rapid.IntRange(1, 3).Draw(t, "ps")}
	}
	c.Stream = rapid.Bool().Draw(t, "stream")
	c.V6 = rapid.IntRange(0, 3).Draw(t, "v6") == 0
	c.Owned = rapid.Bool().Draw(t, "owned")
	c.AckNoDelay = rapid.Bool().Draw(t, "acknodelay")
	c.WriteDelay = rapid.Bool().Draw(t, "writedelay")
	c.Conv = rapid.Uint32().Draw(t, "conv")
	c.LossPm = rapid.SampledFrom([]int{0, 0, 20, 100, 250}).Draw(t, "loss")
	c.DupPm = rapid.SampledFrom([]int{0, 50, 300}).Draw(t, "dup")
	c.DelayPm = rapid.SampledFrom([]int{0, 100, 500}).Draw(t, "delaypm")
	c.MaxDelayMs = rapid.SampledFrom([]int{0, 3, 25}).Draw(t, "maxdelay")
	c.Seed = rapid.Uint64().Draw(t, "seed")
	c.Intruder = intruder
	crypto, _ := wire.NewCrypto(c.Cipher, c.Key)
	mss := sim.SessionMSS(0, crypto, c.FEC[0] > 0)
	for w := 0; w < 2; w++ {
		total := 0
		n := rapid.IntRange(1, 60).Draw(t, fmt.Sprintf("nwrites%d", w))
		for i := 0; i < n && total < maxBytes; i++ {
			hi := 20000
			if !c.Stream {
				hi = mss // one message per write keeps the boundary oracle simple
			}
			sz := rapid.IntRange(1, hi).Draw(t, fmt.Sprintf("w%d", w))
			if rapid.IntRange(0, 3).Draw(t, "edge") == 0 {
				sz = rapid.SampledFrom([]int{1, mss - 1, mss, min(hi, mss+1), hi}).Draw(t, "edgesz")
			}
			c.Writes[w] = append(c.Writes[w], sz)
			total += sz
		}
		c.ReadBuf[w] = rapid.SampledFrom([]int{65536, 4096, 1500, 100, 7}).Draw(t, fmt.Sprintf("rbuf%d", w))
	}
	c.CloseOrder = rapid.IntRange(0, 3).Draw(t, "closeorder")
	return c
}

func describeReal(c *realCfg) map[string]any {
	d := *c
	d.Key = nil
	trim := func(w []int) any {
		if len(w) > 10 {
			return map[string]any{"n": len(w), "first": w[:10]}
		}
		return w
	}
	return map[string]any{"cfg": fmt.Sprintf("%+v", struct {
		Cipher                           string
		FEC                              [2]int
		Stream, V6, Owned                bool
		AckNoDelay, WriteDelay           bool
		LossPm, DupPm, DelayPm, MaxDelay int
		CloseOrder                       int
		CloseEarly, Intruder, Storm      bool
	}{d.Cipher, d.FEC, d.Stream, d.V6, d.Owned, d.AckNoDelay, d.WriteDelay, d.LossPm, d.DupPm, d.DelayPm, d.MaxDelayMs, d.CloseOrder, d.CloseEarly, d.Intruder, d.Storm}),
		"writes0": trim(c.Writes[0]), "writes1": trim(c.Writes[1]), "readbufs": c.ReadBuf}
}

func realClasses(c *realCfg, r *realResult) []string {
	cl := []string{"cipher_" + c.Cipher}
	add := func(b bool, s string) {
		if b {
			cl = append(cl, s)
		}
	}
	add(c.FEC[0] > 0, "fec_on")
	add(c.V6, "ipv6")
	add(c.Owned, "library_owned_sockets")
	add(!c.Owned, "caller_owned_sockets")
	add(c.Stream, "stream_mode")
	add(r.Dropped > 0, "relay_dropped")
	add(r.Duplicated > 0, "relay_duplicated")
	add(r.Completed, "completed")
	add(!r.Completed && !c.CloseEarly, "budget_used_up_inconclusive")
	add(c.CloseEarly, "closed_mid_transfer")
	add(c.Storm, "new_peers_during_close")
	add(r.IntruderSeen > 0, "intruder_datagrams_rejected")
	return cl
}

func realCheck(t *testing.T, kind string, intruder bool, maxBytes int, early bool) {
	rec := hx.NewRecorder(t)
	// warm-up: the runtime's poller descriptors exist before the first baseline is taken
	if c, err := realListenUDP(false); err == nil {
		c.Close()
	} else {
		t.Skipf("no loopback UDP here: %v", err)
	}
	rapid.Check(t, func(rt *rapid.T) {
		cfg := drawRealCfg(rt, intruder, maxBytes)
		if early {
			cfg.CloseEarly = rapid.Bool().Draw(rt, "closeearly")
			cfg.Storm = rapid.Bool().Draw(rt, "storm")
		}
		res := runRealCase(cfg, 30*time.Second)
		for _, f := range res.Fails {
			if f.Kind == kind {
				rt.Fatalf("%s (real UDP): %s\ncase: %+v", strings.ToUpper(kind), f.Msg, describeReal(cfg))
			}
			if f.Kind == "setup" {
				rec.Class("setup_failed_inconclusive", 1)
			}
		}
		nontrivial := res.Completed && (res.Dropped > 0 || res.Duplicated > 0)
		if kind == "intruder" {
			nontrivial = res.IntruderSeen > 0
		}
		if kind == "leak" {
			nontrivial = res.Relayed > 0
		}
		rec.Case(hx.Hash64(describeReal(cfg), cfg.Seed), nontrivial, realClasses(cfg, &res)...)
		if rec.WantSample() {
			d := describeReal(cfg)
			d["relayed"], d["dropped"], d["duplicated"] = res.Relayed, res.Dropped, res.Duplicated
			rec.Sample(d)
		}
	})
}

// TestC01RealUDP: the content oracle over real loopback sockets (recvmmsg /
// sendmmsg paths, IPv4 and IPv6, library-owned and caller-owned sockets).
func TestC01RealUDP(t *testing.T) { realCheck(t, "content", false, 200_000, false) }

// TestC11RealUDP: a dialled session's batch read loop drops datagrams that do
// not come from its peer, and the listener keeps the sessions apart.
func TestC11RealUDP(t *testing.T) { realCheck(t, "intruder", true, 30_000, false) }

// TestC15RealUDP: Close gives back sockets the library opened itself, and
// every goroutine, also when called in the middle of a transfer.
func TestC15RealUDP(t *testing.T) { realCheck(t, "leak", false, 60_000, true) }
