package props

// C12: metamorphic relation. Shifting a connection's starting sequence
// numbers and its millisecond clock by any constants yields the same delivered
// data and the same datagrams, shifted by those constants, at the same times.

import (
	"fmt"
	kcp "github.com/xtaci/kcp-go/v5"
	"testing"

	"pgregory.net/rapid"
	"verif/harness/hx"
	"verif/harness/sim"
	"verif/harness/wire"
)

type normSeg struct {
	Cmd, Frg uint8
	Wnd      uint16
	Ts       uint32
	Sn       uint32
	Una      uint32
	Len      int
	Sum      uint32
}

type normDgram struct {
	From int
	At   int64
	Segs []normSeg
}

func normalize(cfg sim.CoreCfg, e *sim.Emitted) normDgram {
	d := normDgram{From: e.From, At: e.At}
	for _, sg := range e.Segs {
		n := normSeg{Cmd: sg.Cmd, Frg: sg.Frg, Wnd: sg.Wnd, Len: len(sg.Data)}
		n.Una = sg.Una - cfg.SeqOff[1-e.From]
		switch sg.Cmd {
		case wire.CmdPush:
			n.Sn = sg.Sn - cfg.SeqOff[e.From]
			n.Ts = sg.Ts - cfg.ClockOff
		case wire.CmdAck:
			n.Sn = sg.Sn - cfg.SeqOff[1-e.From]
			n.Ts = sg.Ts - cfg.ClockOff
		default:
			// WASK/WINS: sn and ts are not meaningful fields (left-overs of the
			// flush's ack template); only una and wnd are compared
		}
		for _, b := range sg.Data {
			n.Sum = n.Sum*31 + uint32(b)
		}
		d.Segs = append(d.Segs, n)
	}
	return d
}

func drawOffset(t *rapid.T, label string, span int) uint32 {
	switch rapid.IntRange(0, 4).Draw(t, label+"kind") {
	case 0:
		return rapid.Uint32().Draw(t, label+"any")
	case 1, 2:
		return uint32(0) - uint32(rapid.IntRange(0, span).Draw(t, label+"k32"))
	default:
		return uint32(0x80000000) - uint32(rapid.IntRange(0, span).Draw(t, label+"k31"))
	}
}

func crosses(off uint32, used int64) bool {
	for _, b := range []uint64{1 << 31, 1 << 32} {
		if uint64(off) < b && uint64(off)+uint64(used) >= b {
			return true
		}
	}
	return off == 0x80000000 || (off > 0x80000000 && uint64(off)+uint64(used) >= 1<<32)
}

func TestC12Core(t *testing.T) {
	rec := hx.NewRecorder(t)
	opts := sim.FateOpts{MaxExplicit: 20, MaxRegimes: 3, MaxRegLen: 150, MaxDelay: 1500, MaxOutageMs: 20000, MaxOutages: 1}
	rapid.Check(t, func(rt *rapid.T) {
		cfg := sim.DrawCoreCfg(rt)
		fs := sim.DrawFateScript(rt, opts)
		app := drawCoreApps(rt, cfg, 25, 80_000)
		// stalled readers: zero-window probing and its timers must survive the wrap too
		for w := 0; w < 2; w++ {
			if rapid.Bool().Draw(rt, "stall") {
				app[w].Pauses = []sim.Pause{{AfterBytes: int64(rapid.IntRange(0, 30000).Draw(rt, "stallAfter")), Ms: int64(rapid.SampledFrom([]int{300, 1500, 7000, 40000}).Draw(rt, "stallMs"))}}
			}
		}
		nseg := [2]int{}
		for w := 0; w < 2; w++ {
			for _, n := range app[w].Writes {
				nseg[w] += (n + mssOf(cfg.EP[w]) - 1) / mssOf(cfg.EP[w])
			}
		}
		cfg.ClockOff = 0 // the reference run starts at the origin of both spaces
		shifted := cfg
		shifted.SeqOff[0] = drawOffset(rt, "snA", nseg[0]+3)
		shifted.SeqOff[1] = drawOffset(rt, "snB", nseg[1]+3)
		shifted.ClockOff = drawOffset(rt, "clk", 60000)
		run := func(c sim.CoreCfg) (tr []normDgram, st sim.CoreStats, err error) {
			rapid.SyncTest(rt, func(rt *rapid.T) {
				s := sim.NewCoreSim(c, fs, app)
				s.OnEmit = func(e *sim.Emitted) error {
					if e.Err != nil {
						return e.Err
					}
					tr = append(tr, normalize(c, e))
					return nil
				}
				err = s.Run(fs.EndTime() + 400_000)
				st = s.Stats
			})
			return
		}
		tr0, st0, err0 := run(cfg)
		if err0 != nil {
			rt.Fatalf("C12 base run failed (C01 oracle): %v\ncase: %+v", err0, describeCore(cfg, fs, app))
		}
		tr1, st1, err1 := run(shifted)
		if err1 != nil {
			rt.Fatalf("C12: run with offsets sn=%#x/%#x clock=%#x fails where the unshifted run passes: %v\ncase: %+v", shifted.SeqOff[0], shifted.SeqOff[1], shifted.ClockOff, err1, describeCore(cfg, fs, app))
		}
		for i := 0; i < len(tr0) || i < len(tr1); i++ {
			if i >= len(tr0) || i >= len(tr1) {
				rt.Fatalf("C12: offsets sn=%#x/%#x clock=%#x: %d datagrams without shift, %d with\ncase: %+v", shifted.SeqOff[0], shifted.SeqOff[1], shifted.ClockOff, len(tr0), len(tr1), describeCore(cfg, fs, app))
			}
			a, b := fmt.Sprintf("%+v", tr0[i]), fmt.Sprintf("%+v", tr1[i])
			if a != b {
				rt.Fatalf("C12: offsets sn=%#x/%#x clock=%#x: datagram no. %d differs after normalisation\n  unshifted: %s\n  shifted:   %s\ncase: %+v", shifted.SeqOff[0], shifted.SeqOff[1], shifted.ClockOff, i, a, b, describeCore(cfg, fs, app))
			}
		}
		if st0 != st1 {
			rt.Fatalf("C12: observable statistics differ: %+v vs %+v", st0, st1)
		}
		var cl []string
		cs0, cs1 := crosses(shifted.SeqOff[0], int64(nseg[0])), crosses(shifted.SeqOff[1], int64(nseg[1]))
		cc := crosses(shifted.ClockOff, st0.EndMs)
		if cs0 || cs1 {
			cl = append(cl, "sn_boundary_crossed")
		}
		if cc {
			cl = append(cl, "clock_boundary_crossed")
		}
		if st0.Retrans[0]+st0.Retrans[1] > 0 {
			cl = append(cl, "retransmission")
		}
		rec.Case(hx.Hash64(cfg, shifted.SeqOff, shifted.ClockOff, fs.Describe(), app), (cs0 || cs1 || cc) && st0.PushSegs[0]+st0.PushSegs[1] > 0, cl...)
		if rec.WantSample() {
			d := describeCore(shifted, fs, app)
			d["datagrams_compared"] = len(tr0)
			rec.Sample(d)
		}
	})
}

// TestC12FEC: the same arrival script of a group gives the same recoveries
// wherever the group sits in the id space, in particular across the wrap.
func TestC12FEC(t *testing.T) {
	rec := hx.NewRecorder(t)
	var evals, nontriv int64
	shard, nshards := hx.Shard()
	job := 0
	for d := 1; d <= 3; d++ {
		for p := 1; d+p <= 4; p++ {
			n := d + p
			for k := d; k <= n; k++ {
				forEachArrangement(n, k, func(order []int) {
					job++
					if job%nshards != shard {
						return
					}
					ref, err := c07Run(c07Case{D: d, P: p, Base: 0, Sizes: []int{50, 51, 52}, Order: order})
					if err != nil {
						hx.Fail(t, map[string]any{"d": d, "p": p, "order": order}, "C12 FEC base run: %v", err)
					}
					for _, base := range c07Bases(n)[1:] {
						got, err := c07Run(c07Case{D: d, P: p, Base: base, Sizes: []int{50, 51, 52}, Order: order})
						evals++
						if base+uint32(2*n) >= pawsOf(n) || base >= 1<<31-uint32(n) && base <= 1<<31+uint32(3*n) {
							nontriv++
						}
						if err != nil || got != ref {
							hx.Fail(t, map[string]any{"d": d, "p": p, "order": order, "base": base}, "C12 FEC: d=%d p=%d arrival order %v: %d packets recovered with the group at id 0, %d (err=%v) with the group at id %d", d, p, order, ref, got, err, base)
						}
					}
				})
			}
		}
	}
	rec.Bulk(evals, nontriv)
	rec.Exhaustive = true
	rec.Class("fec_position_pairs", evals)
	rec.Sample(map[string]any{"d": 2, "p": 1, "order": []int{2, 0}, "bases": c07Bases(3)})
}

// TestC12SessionFECWrap: real sessions whose FEC encoders are positioned a few
// groups before their wrap value (decoders seeked consistently): the ids wrap
// in mid-transfer. C01's content oracle, the independent wire decoder (ids
// continue modulo the wrap value, types match positions, parity is RS of the
// group) and actual FEC recoveries must be undisturbed.
func TestC12SessionFECWrap(t *testing.T) {
	rec := hx.NewRecorder(t)
	rapid.Check(t, func(rt *rapid.T) {
		cfg := drawPairCfg(rt, pairGenOpts{FECMode: 1, ForceDialed: true})
		fs := sim.DrawFateScript(rt, sim.FateOpts{MaxExplicit: 10, MaxRegimes: 3, MaxRegLen: 150, MaxDelay: 500, MaxLossPm: 250})
		app := drawSessApps(rt, pairMSS(cfg), 25, 100_000)
		groupsBefore := [2]int{rapid.IntRange(0, 6).Draw(rt, "groupsBeforeWrapA"), rapid.IntRange(0, 6).Draw(rt, "groupsBeforeWrapB")}
		var obs [2]*wireObserver
		var d snmpDelta
		wrapped := [2]bool{}
		rapid.SyncTest(rt, func(rt *rapid.T) {
			before := kcp.DefaultSnmp.Copy()
			s := sim.NewSessSim(rapid.SampledFrom([]uint32{0, 0xffffff00, 0x7fffff00}).Draw(rt, "clock"), cfg.EntropySeed)
			p, err := sim.NewPair(s, cfg, app)
			if err != nil {
				rt.Fatalf("setup: %v", err)
			}
			defer p.Finish(nil)
			setPairLinks(s, p, fs)
			for e := 0; e < 2; e++ {
				n := uint32(cfg.FEC[e][0] + cfg.FEC[e][1])
				next := pawsOf(int(n)) - n*uint32(groupsBefore[e])
				p.Sess[e].VerifSetFECNext(next)
				p.Sess[1-e].VerifSeekFECDecoder(next % pawsOf(int(n)))
				obs[e] = newWireObserver(p.Crypto, cfg.FEC[e], cfg.Conv, cfg.StreamID[e], cfg.Opts[e].Stream)
			}
			s.OnSent = func(dg *sim.Sent, from, to string, f *sim.Fate) error {
				e := 0
				if from == p.Addr[1].String() {
					e = 1
				}
				if err := obs[e].Observe(dg.Data); err != nil {
					return err
				}
				if k := len(obs[e].FECIDs); k >= 2 && obs[e].FECIDs[k-1] < obs[e].FECIDs[k-2] {
					wrapped[e] = true
				}
				return nil
			}
			p.OnRead = func(r, n int, err error) {
				// the decoder keeps only the few most recent groups, also across the wrap
				for e := 0; e < 2; e++ {
					if err := sessionLimits(p.Sess[e]); err != nil {
						s.Fail("end %d after the FEC ids wrapped=%v: %v", e, wrapped, err)
					}
				}
			}
			err = p.Run(fs.EndTime()+600_000, false)
			d = snmpSince(before)
			if err != nil {
				rt.Fatalf("C12 (session, FEC ids wrapping): %v\ncase: %+v groups before wrap %v", err, describePair(cfg, fs, app), groupsBefore)
			}
		})
		cl := []string{}
		if wrapped[0] || wrapped[1] {
			cl = append(cl, "fec_id_wrapped_mid_transfer")
		}
		if d.FECRecovered > 0 {
			cl = append(cl, "fec_recovery_used")
		}
		rec.Case(hx.Hash64(describePair(cfg, fs, app), groupsBefore), (wrapped[0] || wrapped[1]) && d.FECRecovered > 0, cl...)
		if rec.WantSample() {
			dd := describePair(cfg, fs, app)
			dd["groups_before_wrap"] = groupsBefore
			dd["fec_recovered"] = d.FECRecovered
			rec.Sample(dd)
		}
	})
}
