package props

// Native coverage-guided fuzz targets (thorough tier only). Each target is one
// of the rapid properties driven through rapid.MakeFuzz: the fuzzer's bytes are
// the property's random stream, so the oracle inside the target is exactly the
// property's, and a crasher is a replayable input under testdata/fuzz/.

import (
	"testing"

	"pgregory.net/rapid"
)

func FuzzC05Core(f *testing.F)       { f.Fuzz(rapid.MakeFuzz(propC05Core)) }
func FuzzC05FECDecoder(f *testing.F) { f.Fuzz(rapid.MakeFuzz(propC05FECDecoder)) }
func FuzzC07Sampled(f *testing.F)    { f.Fuzz(rapid.MakeFuzz(propC07Sampled)) }
func FuzzC20Random(f *testing.F)     { f.Fuzz(rapid.MakeFuzz(propC20Random)) }
