package props

import (
	"fmt"
	"sort"

	kcp "github.com/xtaci/kcp-go/v5"
	"pgregory.net/rapid"
	"verif/harness/sim"
	"verif/harness/wire"
)

type pairGenOpts struct {
	Ciphers     []string // nil = all
	FECMode     int      // 0: drawn, equal at both ends or off; 1: always on; 2: always off
	ForceDialed bool     // no listener
	MaxWnd      int
}

func drawSessOpts(t *rapid.T, label string, minMTU int, listenerSide bool) sim.SessOpts {
	wnds := []int{1, 2, 3, 4, 5, 8, 16, 32, 128, 1024}
	o := sim.SessOpts{
		SndWnd:     rapid.SampledFrom(wnds).Draw(t, label+"sndwnd"),
		RcvWnd:     rapid.SampledFrom(wnds).Draw(t, label+"rcvwnd"),
		NoDelay:    rapid.IntRange(0, 1).Draw(t, label+"nodelay"),
		Interval:   rapid.SampledFrom([]int{10, 20, 40, 100, 200}).Draw(t, label+"interval"),
		Resend:     rapid.SampledFrom([]int{0, 1, 2, 5}).Draw(t, label+"resend"),
		NC:         rapid.IntRange(0, 1).Draw(t, label+"nc"),
		Stream:     rapid.Bool().Draw(t, label+"stream"),
		WriteDelay: rapid.Bool().Draw(t, label+"writedelay"),
		AckNoDelay: rapid.Bool().Draw(t, label+"acknodelay"),
	}
	switch rapid.IntRange(0, 7).Draw(t, label+"mtukind") {
	case 0:
		o.MTU = minMTU + rapid.IntRange(0, 3).Draw(t, label+"mtumin")
	case 1:
		o.MTU = rapid.SampledFrom([]int{1499, 1500, 1501, 9000}).Draw(t, label+"mtumax")
	case 2:
		o.MTU = rapid.IntRange(minMTU+4, 1500).Draw(t, label+"mtuany")
	case 3:
		o.MTU = rapid.SampledFrom([]int{200, 576, 1000}).Draw(t, label+"mtumid")
	default:
		o.MTU = 0
	}
	if listenerSide {
		// an accepted session is tuned after its first datagrams were
		// processed: only settings that may change in mid-connection
		o.RcvWnd = max(o.RcvWnd, 32)
	}
	return o
}

// sessMinMTU is the smallest session MTU SetMtu accepts for this layout.
func sessMinMTU(c *wire.Crypto, fec bool) int {
	m := 25 + c.HeaderSize() + c.TagSize()
	if fec {
		m += 8
	}
	return m
}

func drawPairCfg(t *rapid.T, g pairGenOpts) sim.PairCfg {
	names := g.Ciphers
	if names == nil {
		names = wire.CipherNames
	}
	cfg := sim.PairCfg{
		Cipher:      rapid.SampledFrom(names).Draw(t, "cipher"),
		Conv:        rapid.Uint32().Draw(t, "conv"),
		Listener:    !g.ForceDialed && rapid.Bool().Draw(t, "listener"),
		StrAddr:     rapid.IntRange(0, 3).Draw(t, "straddr") == 0,
		EntropySeed: rapid.Uint64Range(1, 1<<62).Draw(t, "entropy"),
		StreamID:    [2]uint32{rapid.Uint32().Draw(t, "sidA"), rapid.Uint32().Draw(t, "sidB")},
		ClockOff:    sim.DrawClockOff(t),
	}
	cfg.Key = rapid.SliceOfN(rapid.Byte(), wire.KeyLen(cfg.Cipher), wire.KeyLen(cfg.Cipher)).Draw(t, "key")
	fecOn := g.FECMode == 1 || (g.FECMode == 0 && rapid.IntRange(0, 9).Draw(t, "fecon") < 6)
	if fecOn {
		d, p := rapid.IntRange(1, 12).Draw(t, "fecD"), rapid.IntRange(1, 4).Draw(t, "fecP")
		if rapid.IntRange(0, 40).Draw(t, "fecBig") == 0 {
			d, p = rapid.IntRange(13, 120).Draw(t, "fecDbig"), rapid.IntRange(1, 30).Draw(t, "fecPbig")
		}
		cfg.FEC = [2][2]int{{d, p}, {d, p}}
	}
	c, _ := wire.NewCrypto(cfg.Cipher, cfg.Key)
	minMTU := sessMinMTU(c, fecOn)
	cfg.Opts[0] = drawSessOpts(t, "cli.", minMTU, false)
	cfg.Opts[1] = drawSessOpts(t, "srv.", minMTU, cfg.Listener)
	return cfg
}

// drawSessApps draws application scripts for a session pair. Session writes
// may have any size (Write cuts them at mss); the total is bounded in
// segments so that tiny-MTU cases stay cheap.
func drawSessApps(t *rapid.T, mss [2]int, maxWrites, maxTotal int) [2]sim.AppScript {
	var app [2]sim.AppScript
	for w := 0; w < 2; w++ {
		label := fmt.Sprintf("app%d.", w)
		mw := maxWrites
		if w == 1 && rapid.IntRange(0, 2).Draw(t, label+"oneway") == 0 {
			mw = 0
		}
		total := min(maxTotal, mss[w]*300)
		app[w].Writes = sim.DrawWriteSizes(t, label, mss[w], mw, total, min(total, 70000))
		app[w].ReadBufs = sim.DrawReadBufs(t, label, mss[w])
		if mss[w] > 64 && len(app[w].ReadBufs) > 0 && total > 20000 {
			// 1- and 2-byte read buffers on long streams cost a goroutine per byte
			for i, b := range app[w].ReadBufs {
				if b < 7 {
					app[w].ReadBufs[i] = 7
				}
			}
		}
		if rapid.IntRange(0, 2).Draw(t, label+"vectored") == 0 {
			app[w].VecSeed = rapid.Uint64Range(1, 1<<62).Draw(t, label+"vecseed")
		}
		if rapid.IntRange(0, 3).Draw(t, label+"gaps") == 0 {
			for range app[w].Writes {
				app[w].GapMs = append(app[w].GapMs, int32(rapid.SampledFrom([]int{0, 0, 1, 30, 250, 700}).Draw(t, label+"gap")))
			}
		}
	}
	return app
}

func describePair(cfg sim.PairCfg, fs *sim.FateScript, app [2]sim.AppScript) map[string]any {
	trim := func(w []int) any {
		if len(w) > 12 {
			return map[string]any{"n": len(w), "first": w[:12]}
		}
		return w
	}
	c := cfg
	c.Key = nil
	d := map[string]any{
		"cfg": fmt.Sprintf("%+v", c),
		"app": []any{
			map[string]any{"writes": trim(app[0].Writes), "readbufs": app[0].ReadBufs, "pauses": app[0].Pauses, "vecseed": app[0].VecSeed},
			map[string]any{"writes": trim(app[1].Writes), "readbufs": app[1].ReadBufs, "pauses": app[1].Pauses, "vecseed": app[1].VecSeed},
		},
	}
	if fs != nil {
		d["fates"] = fs.Describe()
	}
	return d
}

type snmpDelta struct {
	Retrans, Repeat, FECRecovered, FECErrs, Lost, InCsum, KCPInErrs, InErrs uint64
}

func snmpSince(before *kcp.Snmp) snmpDelta {
	a := kcp.DefaultSnmp.Copy()
	return snmpDelta{a.RetransSegs - before.RetransSegs, a.RepeatSegs - before.RepeatSegs, a.FECRecovered - before.FECRecovered,
		a.FECErrs - before.FECErrs, a.LostSegs - before.LostSegs, a.InCsumErrors - before.InCsumErrors, a.KCPInErrors - before.KCPInErrors, a.InErrs - before.InErrs}
}

// pairMSS computes both ends' segment payload capacity.
func pairMSS(cfg sim.PairCfg) [2]int {
	c, _ := wire.NewCrypto(cfg.Cipher, cfg.Key)
	var m [2]int
	for e := 0; e < 2; e++ {
		m[e] = sim.SessionMSS(cfg.Opts[e].MTU, c, cfg.FEC[e][0] > 0 && cfg.FEC[e][1] > 0)
	}
	return m
}

// setPairLinks installs the two directions of fs between the pair's sockets.
func setPairLinks(s *sim.SessSim, p *sim.Pair, fs *sim.FateScript) {
	s.SetLink(p.Addr[0].String(), p.Addr[1].String(), fs, 0)
	s.SetLink(p.Addr[1].String(), p.Addr[0].String(), fs, 1)
}

func keyLenFor(c string) int { return wire.KeyLen(c) }

// pairAllowance: see coreAllowance; the same reasoning for two sessions.
func pairAllowance(p *sim.Pair, extra int64) int64 {
	var maxRto int64 = 200
	for e := 0; e < 2; e++ {
		if p.Sess[e] == nil {
			continue
		}
		p.Sess[e].VerifWithKCP(func(k *kcp.KCP) {
			st := k.VerifState(true)
			maxRto = max(maxRto, int64(st.RxRto))
			for _, r := range st.SndBufRto {
				maxRto = max(maxRto, int64(r))
			}
		})
	}
	return 2*(maxRto+60_000) + 2*180_000 + extra + 10_000
}

type pairProgress struct {
	acc, rcv [2]int64
	una, nxt [2]uint32
	wait     [2]int
}

func pairSignature(p *sim.Pair) (g pairProgress) {
	for e := 0; e < 2; e++ {
		g.acc[e], g.rcv[e], _ = p.Progress(e)
		if p.Sess[e] != nil {
			p.Sess[e].VerifWithKCP(func(k *kcp.KCP) {
				st := k.VerifState(false)
				g.una[e], g.nxt[e], g.wait[e] = st.SndUna, st.RcvNxt, st.SndQueue+st.SndBuf
			})
		}
	}
	return
}

// runPairUntilComplete is bounded liveness for a session pair: run until the
// faults are over (fault scripts used up - however long back-off stretches a
// script counted in datagrams, up to 6 h - and faultsEnd reached), then demand
// progress: wedged = nothing moved for longer than pairAllowance.
// errScriptUnfinished means the premise (faults over) was never met.
func runPairUntilComplete(p *sim.Pair, s *sim.SessSim, faultsEnd int64, segs int64, ivSum int) error {
	_ = segs
	err := p.Run(max(faultsEnd, 1_000), false)
	for err == nil && !p.Complete() && !s.ScriptsDone() && s.Now() < 6*3600_000 {
		err = p.Run(s.Now()+300_000, false)
	}
	if err != nil || p.Complete() {
		return err
	}
	if !s.ScriptsDone() {
		return errScriptUnfinished
	}
	healed := s.Now()
	last, lastAt := pairSignature(p), s.Now()
	for err == nil && !p.Complete() {
		err = p.Run(s.Now()+20_000, false)
		for w := 0; w < 2; w++ {
			if p.ReaderPaused(w) { // a scripted stall in progress is a fault in progress
				lastAt = max(lastAt, s.Now())
			}
		}
		if sig := pairSignature(p); sig != last {
			last, lastAt = sig, s.Now()
			continue
		}
		if allow := pairAllowance(p, 4*int64(ivSum)); s.Now()-lastAt > allow {
			a0, r0, t0 := p.Progress(0)
			a1, r1, t1 := p.Progress(1)
			return fmt.Errorf("transfer wedged: faults over since %d ms, nothing moved since %d ms (now %d ms, allowance %d ms): A->B %d accepted / %d read / %d total, B->A %d/%d/%d", healed, lastAt, s.Now(), allow, a0, r0, t0, a1, r1, t1)
		}
		if s.Now()-healed > 48*3600_000 {
			return errScriptUnfinished
		}
	}
	return err
}

// sessRetune is one tuning call made in mid-connection.
type sessRetune struct {
	AtMs int64
	End  int
	Kind string // wnd | nodelay | writedelay | acknodelay
	A    [4]int
}

// drawRetunes draws up to three tuning calls at virtual times during the
// transfer. The receive window is only ever raised (a receiver that shrinks
// its window under a sender that has already been told the larger one is
// slow for hours of virtual time, never wrong); the deprecated stream-mode
// switch is left alone.
func drawRetunes(t *rapid.T, cfg sim.PairCfg) []sessRetune {
	var out []sessRetune
	for i, n := 0, rapid.SampledFrom([]int{0, 0, 1, 2, 3}).Draw(t, "nRetunes"); i < n; i++ {
		r := sessRetune{AtMs: int64(rapid.SampledFrom([]int{3, 40, 250, 1500, 20_000}).Draw(t, "retuneAt")), End: rapid.IntRange(0, 1).Draw(t, "retuneEnd")}
		switch rapid.IntRange(0, 3).Draw(t, "retuneKind") {
		case 0:
			r.Kind = "wnd"
			r.A[0] = rapid.SampledFrom([]int{1, 2, 4, 16, 64, 512}).Draw(t, "retuneSnd")
			r.A[1] = cfg.Opts[r.End].RcvWnd * rapid.SampledFrom([]int{1, 2, 8}).Draw(t, "retuneRcvMul")
		case 1:
			r.Kind = "nodelay"
			r.A = [4]int{rapid.IntRange(-1, 2).Draw(t, "rtNd"), rapid.SampledFrom([]int{-1, 5, 10, 20, 40, 100, 200, 1000, 9000}).Draw(t, "rtIv"), rapid.SampledFrom([]int{-1, 0, 1, 2, 5}).Draw(t, "rtRs"), rapid.IntRange(-1, 1).Draw(t, "rtNc")}
		case 2:
			r.Kind = "writedelay"
			r.A[0] = rapid.IntRange(0, 1).Draw(t, "rtWd")
		default:
			r.Kind = "acknodelay"
			r.A[0] = rapid.IntRange(0, 1).Draw(t, "rtAnd")
		}
		out = append(out, r)
	}
	sort.SliceStable(out, func(i, j int) bool { return out[i].AtMs < out[j].AtMs })
	return out
}

// runPairWithRetunes runs the pair up to each tuning call's time, makes the
// call, and returns how many were made while data was still to be moved.
func runPairWithRetunes(p *sim.Pair, s *sim.SessSim, rts []sessRetune) (made int, err error) {
	for _, r := range rts {
		if err = p.Run(r.AtMs, false); err != nil || p.Complete() {
			return
		}
		x := p.Sess[r.End]
		if x == nil {
			continue
		}
		switch r.Kind {
		case "wnd":
			x.SetWindowSize(r.A[0], r.A[1])
		case "nodelay":
			x.SetNoDelay(r.A[0], r.A[1], r.A[2], r.A[3])
		case "writedelay":
			x.SetWriteDelay(r.A[0] == 1)
		case "acknodelay":
			x.SetACKNoDelay(r.A[0] == 1)
		}
		made++
		s.Quiesce()
	}
	return
}
