package props

import (
	"encoding/binary"
	"fmt"
	"net"
	"strings"
	"testing"
	"time"

	kcp "github.com/xtaci/kcp-go/v5"
	"pgregory.net/rapid"
	"verif/harness/hx"
	"verif/harness/sim"
	"verif/harness/wire"
)

// TestC19ForeignConvOOB: an out-of-band datagram that carries another
// conversation id - a late packet of a previous incarnation at the same
// address, or a forged one - must never reach the handler of the session that
// owns the address now ("never to another session"). Whether the listener
// ignores it or treats it as the start of a new conversation is not asserted.
func TestC19ForeignConvOOB(t *testing.T) {
	rec := hx.NewRecorder(t)
	rapid.Check(t, func(rt *rapid.T) {
		cipher := rapid.SampledFrom([]string{"null", "aes-128", "salsa20", "aes-128-gcm", "none", "xor"}).Draw(rt, "cipher")
		key := rapid.SliceOfN(rapid.Byte(), wire.KeyLen(cipher), wire.KeyLen(cipher)).Draw(rt, "key")
		fec := [2]int{rapid.IntRange(1, 4).Draw(rt, "d"), rapid.IntRange(1, 2).Draw(rt, "p")}
		convA := rapid.OneOf(rapid.SampledFrom([]uint32{0, 1, 0xffffffff}), rapid.Uint32()).Draw(rt, "convA") // any 32-bit value is a legal id
		convB := convA ^ (1 << uint(rapid.IntRange(0, 31).Draw(rt, "convBit")))
		n := rapid.IntRange(0, 60).Draw(rt, "len")
		crossDelivered := ""
		genuineSeen := false
		rapid.SyncTest(rt, func(rt *rapid.T) {
			s := sim.NewSessSim(0, 19)
			s.DefaultDelay = 2
			crypto, _ := wire.NewCrypto(cipher, key)
			blk := func() kcp.BlockCrypt { b, _ := sim.NewBlockCrypt(cipher, key); return b }
			laddr := &net.UDPAddr{IP: net.IPv4(10, 0, 0, 1), Port: 1}
			caddr := &net.UDPAddr{IP: net.IPv4(10, 0, 0, 2), Port: 2}
			lconn, cconn := s.Net.Listen(laddr), s.Net.Listen(caddr)
			L, _ := kcp.ServeConn(blk(), fec[0], fec[1], lconn)
			cli, _ := kcp.NewConn3(convA, laddr, blk(), fec[0], fec[1], cconn)
			cli.SetNoDelay(1, 10, 2, 1)
			cli.Write([]byte{1})
			acc := s.Go("Accept", func() (int, error, any) { c, err := L.AcceptKCP(); return 0, err, c })
			s.SleepTo(100)
			var sessions []*kcp.UDPSession
			defer func() {
				cli.Close()
				for _, x := range sessions {
					x.Close()
				}
				tbl, _ := L.VerifSessions()
				for a := range tbl {
					if x := L.VerifSession(a); x != nil {
						x.Close()
					}
				}
				L.Close()
				lconn.Close()
				cconn.Close()
				s.Drain(5000)
			}()
			if !acc.Done() || acc.Err != nil {
				rt.Fatalf("harness: session not accepted")
			}
			srv := acc.Val.(*kcp.UDPSession)
			sessions = append(sessions, srv)
			foreign := make([]byte, n)
			for i := range foreign {
				foreign[i] = byte(0xE0 + i%7)
			}
			genuine := []byte("genuine-oob-of-conversation-A")
			srv.SetOOBHandler(func(b []byte) {
				switch {
				case string(b) == string(genuine):
					genuineSeen = true
				case len(b) == len(foreign) && string(b) == string(foreign):
					crossDelivered = "the handler of the session for conv A was given the payload of an OOB packet that carries conv B"
				}
			})
			cli.SendOOB(genuine)
			s.SleepTo(150)
			// the foreign packet: reserved seqid, type F3, size, conv B, payload - sealed with the right key
			rest := make([]byte, 2+4+n)
			binary.LittleEndian.PutUint16(rest, uint16(len(rest)))
			binary.LittleEndian.PutUint32(rest[2:], convB)
			copy(rest[6:], foreign)
			nonce := make([]byte, 16)
			nonce[3] = 0x77
			dg := crypto.Seal(nonce, wire.BuildFECRaw(wire.OOBSeqID, wire.TypeOOB, rest))
			L.VerifPacketInput(append([]byte(nil), dg...), caddr)
			s.SleepTo(300)
			// a second Accept may now be pending if the listener took it for a new conversation
			acc2 := s.Go("Accept", func() (int, error, any) {
				L.SetReadDeadline(s.Start.Add(400 * 1e6))
				c, err := L.AcceptKCP()
				return 0, err, c
			})
			s.SleepTo(500)
			if acc2.Done() && acc2.Err == nil {
				sessions = append(sessions, acc2.Val.(*kcp.UDPSession))
			}
		})
		if crossDelivered != "" {
			rt.Fatalf("C19: %s (cipher %s, FEC %v, payload %d bytes, conv A %#x, conv B %#x)", crossDelivered, cipher, fec, n, convA, convB)
		}
		cl := []string{"cipher_" + cipher}
		if n < 20 {
			cl = append(cl, "short_payload")
		}
		if genuineSeen {
			cl = append(cl, "genuine_oob_delivered")
		}
		rec.Case(hx.Hash64(cipher, fec, convA, convB, n), genuineSeen, cl...)
		if rec.WantSample() {
			rec.Sample(map[string]any{"cipher": cipher, "fec": fec, "payload_len": n, "convA": convA, "convB": convB})
		}
	})
}

// pokeClosedOOB calls SendOOB on sessions that have been closed, the way a
// heartbeat goroutine that has not yet noticed the Close would. Whether a call
// is refused or silently dropped is not specified; its buffer must go back to
// the pool exactly once either way (the pool sanitizer reports otherwise).
func pokeClosedOOB(s *sim.SessSim, sess []*kcp.UDPSession, calls int) (refused int) {
	for i := 0; i < calls; i++ {
		for _, x := range sess {
			if x == nil {
				continue
			}
			if err := x.SendOOB([]byte{0xC1, byte(i), 3, 4, 5, 6, 7, 8}); err != nil {
				refused++
			}
		}
		if i%4 == 3 {
			s.Quiesce()
		}
	}
	s.Quiesce()
	return
}

// TestC19ClosedSession: OOB sends during a transfer, then on an end that is
// closed in mid-transfer or after it, under the buffer-pool sanitizer: an OOB
// packet that is refused or dropped must not hand its buffer to the pool
// twice - the pool is shared by every session of the process, and a buffer
// with two owners shows up as corrupted OOB messages and stream bytes
// elsewhere. A second pair then runs on the same pool under the C01 / wire
// oracles.
func TestC19ClosedSession(t *testing.T) {
	rec := hx.NewRecorder(t)
	rapid.Check(t, func(rt *rapid.T) {
		cfg := drawPairCfg(rt, pairGenOpts{FECMode: 1})
		fs := sim.DrawFateScript(rt, sim.FateOpts{MaxExplicit: 8, MaxRegimes: 2, MaxRegLen: 80, MaxDelay: 300, MaxLossPm: 200})
		app := drawSessApps(rt, pairMSS(cfg), 12, 40_000)
		if cfg.Listener && len(app[0].Writes) == 0 {
			app[0].Writes = []int{1}
		}
		mode := rapid.SampledFrom([]int{kcp.VerifPoolQuarantine, kcp.VerifPoolLIFO}).Draw(rt, "poolMode")
		closeAt := int64(rapid.SampledFrom([]int{1, 12, 40, 150, 1000, -1}).Draw(rt, "closeAtMs")) // -1: only after the transfer
		calls := rapid.IntRange(1, 12).Draw(rt, "callsAfterClose")
		var pool kcp.VerifPoolStats
		refused, sentLive := 0, 0
		rapid.SyncTest(rt, func(rt *rapid.T) {
			kcp.VerifPoolMode(mode, 50000, false)
			defer kcp.VerifPoolMode(kcp.VerifPoolOff, 0, false)
			s := sim.NewSessSim(cfg.ClockOff, cfg.EntropySeed)
			p, err := sim.NewPair(s, cfg, app)
			if err != nil {
				rt.Fatalf("setup: %v", err)
			}
			setPairLinks(s, p, fs)
			reads := 0
			p.OnRead = func(r, n int, err error) {
				reads++
				for e := 0; e < 2; e++ {
					if p.Sess[e] != nil && reads%3 == 0 {
						if p.Sess[e].SendOOB([]byte{0xC0, byte(reads), 1, 2, 3, 4}) == nil {
							sentLive++
						}
					}
				}
			}
			if closeAt >= 0 {
				err = p.Run(closeAt, false)
			} else {
				err = p.Run(fs.EndTime()+600_000, false)
			}
			if err != nil {
				rt.Fatalf("C19 (closed session): %v\ncase: %+v", err, describePair(cfg, fs, app))
			}
			sess := []*kcp.UDPSession{p.Sess[0], p.Sess[1]}
			// close end 0 first and keep using it, then everything else
			if p.Sess[0] != nil {
				p.Sess[0].Close()
			}
			refused += pokeClosedOOB(s, sess[:1], calls)
			p.Finish(nil)
			refused += pokeClosedOOB(s, sess, calls)
			s.Drain(10_000)
			pool = kcp.VerifPoolReport()
		})
		if len(pool.Faults) > 0 {
			rt.Fatalf("C19: an out-of-band send on a closed session broke the buffer pool's one-owner rule (pool sanitizer mode %d): %s\ncase: %+v", mode, strings.Join(pool.Faults, "\n"), describePair(cfg, fs, app))
		}
		cl := []string{fmt.Sprintf("pool_mode_%d", mode)}
		if closeAt >= 0 {
			cl = append(cl, "closed_mid_transfer")
		}
		if refused > 0 {
			cl = append(cl, "send_on_closed_session_refused")
		}
		if sentLive > 0 {
			cl = append(cl, "oob_sent_while_open")
		}
		rec.Case(hx.Hash64(describePair(cfg, fs, app), mode, closeAt, calls), refused > 0 && sentLive > 0, cl...)
		if rec.WantSample() {
			dd := describePair(cfg, fs, app)
			dd["calls_on_closed_session"], dd["refused"], dd["pool_gets"], dd["pool_puts"] = calls, refused, pool.Gets, pool.Puts
			rec.Sample(dd)
		}
	})
}

// TestC19OneSidedFEC: FEC at one end only (the other end creates a decoder
// lazily when the first FEC packet arrives). The end without FEC must keep
// refusing the out-of-band calls for the whole life of the connection - an
// OOB packet it let through would go out without the OOB frame and be parsed
// by the peer as stream segments - while the end with FEC may send OOB
// messages, which must not disturb the stream towards the end without a
// handler. The stream in both directions stays under the C01 content oracle.
func TestC19OneSidedFEC(t *testing.T) {
	rec := hx.NewRecorder(t)
	rapid.Check(t, func(rt *rapid.T) {
		cfg := drawPairCfg(rt, pairGenOpts{FECMode: 1})
		noFEC := rapid.IntRange(0, 1).Draw(rt, "endWithoutFEC")
		cfg.FEC[noFEC] = [2]int{0, 0}
		excluded := false
		if hx.IsKnown(c16KeyNonOriginal) && cfg.FEC[1-noFEC] != [2]int{1, 1} {
			// listed finding (C16): until the lazily created 1/1 decoder has adopted
			// the sender's ratio it "recovers" Reed-Solomon combinations of genuine
			// packets, and with equal header fields (conversation id 0, say) such a
			// combination passes the core's checks and corrupts the stream. Not the
			// subject here: the end with FEC uses the ratio the lazy decoder starts with.
			cfg.FEC[1-noFEC] = [2]int{1, 1}
			excluded = true
		}
		fs := sim.DrawFateScript(rt, sim.FateOpts{MaxExplicit: 8, MaxRegimes: 2, MaxRegLen: 80, MaxDelay: 300, MaxLossPm: 150})
		app := drawSessApps(rt, pairMSS(cfg), 15, 50_000)
		if cfg.Listener && len(app[0].Writes) == 0 {
			app[0].Writes = []int{1}
		}
		if len(app[1-noFEC].Writes) == 0 {
			app[1-noFEC].Writes = []int{100, 2000} // the end with FEC must send something for the other to see FEC packets
		}
		every := rapid.IntRange(1, 4).Draw(rt, "every")
		refusedAfterFEC, oobFromFECEnd := 0, 0
		completed := false
		rapid.SyncTest(rt, func(rt *rapid.T) {
			s := sim.NewSessSim(cfg.ClockOff, cfg.EntropySeed)
			p, err := sim.NewPair(s, cfg, app)
			if err != nil {
				rt.Fatalf("setup: %v", err)
			}
			defer p.Finish(nil)
			setPairLinks(s, p, fs)
			reads := 0
			p.OnRead = func(r, n int, err error) {
				reads++
				if reads%every != 0 {
					return
				}
				x := p.Sess[noFEC]
				if x == nil {
					return
				}
				seenFEC := x.VerifFEC().HasDecoder
				payload := wire.Segment{Conv: cfg.Conv, Cmd: wire.CmdPush, Wnd: 32, Sn: uint32(reads), Data: []byte("EVIL!")}.Append(nil)
				if err := x.SendOOB(payload); err == nil {
					s.Fail("SendOOB accepted at the end without FEC (its peer uses FEC; FEC packets seen so far: %v)", seenFEC)
					return
				}
				if err := x.SetOOBHandler(func([]byte) {}); err == nil {
					s.Fail("SetOOBHandler accepted at the end without FEC (FEC packets seen so far: %v)", seenFEC)
					return
				}
				if m := x.GetOOBMaxSize(); m != 0 {
					s.Fail("GetOOBMaxSize() = %d at the end without FEC (FEC packets seen so far: %v)", m, seenFEC)
					return
				}
				if seenFEC {
					refusedAfterFEC++
				}
				if y := p.Sess[1-noFEC]; y != nil && reads%(2*every) == 0 {
					if y.SendOOB([]byte("ping from the end with FEC")) == nil {
						oobFromFECEnd++
					}
				}
			}
			err = runPairUntilComplete(p, s, fs.EndTime(), 0, cfg.Opts[0].Interval+cfg.Opts[1].Interval)
			if err == errScriptUnfinished {
				rec.Class("script_unfinished_inconclusive", 1)
				err = nil
			}
			completed = p.Complete()
			if err != nil {
				rt.Fatalf("C19 (FEC at end %d only): %v\ncase: %+v", 1-noFEC, err, describePair(cfg, fs, app))
			}
		})
		cl := []string{"cipher_" + cfg.Cipher}
		if refusedAfterFEC > 0 {
			cl = append(cl, "refused_after_fec_packets_had_arrived")
		}
		if oobFromFECEnd > 0 {
			cl = append(cl, "oob_sent_towards_the_end_without_fec")
		}
		if completed {
			cl = append(cl, "completed")
		}
		if excluded {
			rec.Exclude(c16KeyNonOriginal)
		}
		rec.Case(hx.Hash64(describePair(cfg, fs, app), noFEC, every), refusedAfterFEC > 0, cl...)
		if rec.WantSample() {
			dd := describePair(cfg, fs, app)
			dd["end_without_fec"], dd["refusals_after_fec_seen"], dd["oob_from_fec_end"] = noFEC, refusedAfterFEC, oobFromFECEnd
			rec.Sample(dd)
		}
	})
}

// TestC19HandlerReentrancy: an OOB handler may call the session's own OOB API
// from inside the callback - replace itself ("token first, then the steady
// handler"), unregister, ask for the size limit, answer with SendOOB. The
// callback runs on the goroutine that feeds the session (for accepted sessions:
// the listener's, which feeds every session), so a handler that cannot return
// stalls OOB delivery and the reliable stream alike. Real time, real goroutines;
// the verdict is "the second message reached the new handler and the stream
// still flows within 15 s" on an in-memory network with immediate delivery.
func TestC19HandlerReentrancy(t *testing.T) {
	rec := hx.NewRecorder(t)
	kcp.SystemTimedSched = realSched
	n := 0
	for _, cipher := range []string{"null", "aes-128", "aes-128-gcm"} {
		for _, listener := range []bool{false, true} {
			for _, inner := range []string{"replace", "unregister_then_register", "size_and_send"} {
				n++
				nw := sim.NewNet()
				nw.Direct = true
				la := &net.UDPAddr{IP: net.IPv4(10, 0, 0, 1), Port: 1}
				ca := &net.UDPAddr{IP: net.IPv4(10, 0, 0, 2), Port: 2}
				lc, cc := nw.Listen(la), nw.Listen(ca)
				key := make([]byte, keyLenFor(cipher))
				blk := func() kcp.BlockCrypt { b, _ := sim.NewBlockCrypt(cipher, key); return b }
				cli, _ := kcp.NewConn3(42, la, blk(), 2, 1, cc)
				var srv *kcp.UDPSession
				var L *kcp.Listener
				if listener {
					L, _ = kcp.ServeConn(blk(), 2, 1, lc)
					cli.Write([]byte("hi"))
					L.SetReadDeadline(time.Now().Add(10 * time.Second))
					var err error
					if srv, err = L.AcceptKCP(); err != nil {
						t.Fatalf("setup: accept: %v", err)
					}
				} else {
					srv, _ = kcp.NewConn3(42, ca, blk(), 2, 1, lc)
				}
				for _, x := range []*kcp.UDPSession{cli, srv} {
					x.SetNoDelay(1, 10, 2, 1)
				}
				got := make(chan string, 64)
				steady := func(b []byte) { got <- "steady:" + string(b) }
				first := func(b []byte) {
					got <- "first:" + string(b)
					switch inner {
					case "replace":
						srv.SetOOBHandler(steady)
					case "unregister_then_register":
						srv.SetOOBHandler(nil)
						srv.SetOOBHandler(steady)
					default:
						srv.GetOOBMaxSize()
						srv.SendOOB([]byte("echo"))
						srv.SetOOBHandler(steady)
					}
				}
				srv.SetOOBHandler(first)
				cli.SetOOBHandler(func(b []byte) { got <- "client:" + string(b) })
				wait := func(want string) bool {
					deadline := time.After(15 * time.Second)
					for {
						select {
						case g := <-got:
							if g == want {
								return true
							}
						case <-deadline:
							return false
						}
					}
				}
				what := fmt.Sprintf("cipher %s, accepted session=%v, the handler calls %s from inside the callback", cipher, listener, inner)
				cli.SendOOB([]byte("one"))
				if !wait("first:one") {
					t.Fatalf("C19 (%s): the first OOB message never reached the handler", what)
				}
				cli.SendOOB([]byte("two"))
				if !wait("steady:two") {
					hx.Fail(t, map[string]any{"cipher": cipher, "listener": listener, "inner": inner}, "C19 (%s): the second OOB message did not reach the handler installed from inside the first callback within 15 s: the goroutine that feeds the session is stuck", what)
				}
				cli.Write([]byte("stream data"))
				srv.SetReadDeadline(time.Now().Add(15 * time.Second))
				buf := make([]byte, 64)
				if listener {
					srv.Read(buf) // the "hi" of the setup
				}
				if k, err := srv.Read(buf); err != nil || string(buf[:k]) != "stream data" {
					hx.Fail(t, map[string]any{"cipher": cipher, "listener": listener, "inner": inner}, "C19 (%s): the reliable stream stopped after the handler swap: Read returned %q, %v", what, buf[:k], err)
				}
				cli.Close()
				srv.Close()
				if L != nil {
					L.Close()
				}
				lc.Close()
				cc.Close()
				rec.Case(uint64(n), true, "handler_calls_its_own_oob_api_"+inner)
			}
		}
	}
	rec.Sample(map[string]any{"inner_calls": []string{"SetOOBHandler(next)", "SetOOBHandler(nil)+SetOOBHandler(next)", "GetOOBMaxSize+SendOOB+SetOOBHandler(next)"}, "sessions": []string{"dialled", "accepted"}})
}
