package props

// C01: at every moment the reader has seen exactly a prefix of what the peer's
// writer had accepted. The content oracle lives inside the simulators (every
// Recv/Read is compared with the position-dependent stream); this file draws
// configurations, fault histories and application scripts.

import (
	"fmt"
	kcp "github.com/xtaci/kcp-go/v5"
	"testing"
	"time"

	"pgregory.net/rapid"
	"verif/harness/hx"
	"verif/harness/sim"
)

var c01FateOpts = sim.FateOpts{MaxExplicit: 24, MaxRegimes: 4, MaxRegLen: 300, MaxDelay: 2000, MaxOutageMs: 60000, MaxOutages: 2}

func coreClasses(st *sim.CoreStats) (cl []string) {
	if st.Retrans[0]+st.Retrans[1] > 0 {
		cl = append(cl, "retransmission")
	}
	if st.Duplicated[0]+st.Duplicated[1] > 0 {
		cl = append(cl, "duplicate_delivered")
	}
	if st.OutOfOrder[0]+st.OutOfOrder[1] > 0 {
		cl = append(cl, "out_of_order_into_heap")
	}
	if st.SmallReads > 0 {
		cl = append(cl, "read_smaller_than_message")
	}
	if st.Dropped[0]+st.Dropped[1] > 0 {
		cl = append(cl, "drop")
	}
	if st.Done {
		cl = append(cl, "completed")
	}
	return
}

func TestC01Core(t *testing.T) {
	rec := hx.NewRecorder(t)
	rapid.Check(t, func(rt *rapid.T) {
		cfg := sim.DrawCoreCfg(rt)
		fs := sim.DrawFateScript(rt, c01FateOpts)
		app := drawCoreApps(rt, cfg, 40, 200_000)
		retunes := drawCoreRetunes(rt, cfg)
		var st sim.CoreStats
		rapid.SyncTest(rt, func(rt *rapid.T) {
			s := sim.NewCoreSim(cfg, fs, app)
			s.Ops = coreRetuneOps(retunes)
			err := s.Run(fs.EndTime() + 900_000)
			st = s.Stats
			if err != nil {
				rt.Fatalf("C01 (raw core, stream=%v): %v\ntuning calls in mid-connection: %+v\ncase: %+v", cfg.Stream, err, retunes, describeCore(cfg, fs, app))
			}
		})
		cl := coreClasses(&st)
		if len(retunes) > 0 {
			cl = append(cl, "retune_calls_scripted")
		}
		if cfg.Stream {
			cl = append(cl, "stream_mode")
		} else {
			cl = append(cl, "message_mode")
		}
		other := st.Duplicated[0]+st.Duplicated[1] > 0 || st.OutOfOrder[0]+st.OutOfOrder[1] > 0 || st.SmallReads > 0
		nontrivial := st.Retrans[0]+st.Retrans[1] > 0 && other
		rec.Case(hx.Hash64(cfg, fs.Describe(), app, retunes), nontrivial, cl...)
		if rec.WantSample() {
			d := describeCore(cfg, fs, app)
			d["retunes"] = retunes
			d["stats"] = st
			rec.Sample(d)
		}
	})
}

func TestC01Session(t *testing.T) {
	rec := hx.NewRecorder(t)
	rapid.Check(t, func(rt *rapid.T) {
		cfg := drawPairCfg(rt, pairGenOpts{})
		fs := sim.DrawFateScript(rt, c01FateOpts)
		app := drawSessApps(rt, pairMSS(cfg), 30, 150_000)
		// a paced writer that keeps writing small pieces right through an outage of
		// many seconds - long enough for a segment to be retransmitted dozens of
		// times (the library's dead-link threshold is 20) - and after it
		paced := rapid.IntRange(0, 3).Draw(rt, "pacedThroughOutage") == 0
		if paced {
			for e := 0; e < 2; e++ {
				cfg.Opts[e].SndWnd = max(cfg.Opts[e].SndWnd, 128)
				cfg.Opts[e].RcvWnd = max(cfg.Opts[e].RcvWnd, 128)
			}
			n := rapid.IntRange(20, 60).Draw(rt, "pacedWrites")
			app[0].Writes, app[0].GapMs, app[0].VecSeed = nil, nil, 0
			for i := 0; i < n; i++ {
				app[0].Writes = append(app[0].Writes, rapid.IntRange(1, 300).Draw(rt, "pacedSize"))
				app[0].GapMs = append(app[0].GapMs, int32(rapid.SampledFrom([]int{200, 700, 1500, 3000}).Draw(rt, "pacedGap")))
			}
			from := int64(rapid.IntRange(50, 3000).Draw(rt, "pacedOutageFrom"))
			fs.Outages = append(fs.Outages, sim.Outage{From: from, To: from + int64(rapid.SampledFrom([]int{4000, 8000, 30_000, 70_000}).Draw(rt, "pacedOutageLen")), Mask: rapid.IntRange(1, 3).Draw(rt, "pacedOutageMask")})
		}
		retunes := drawRetunes(rt, cfg)
		var d snmpDelta
		var dup, smallReads, vecWrites, retuned int
		completed := false
		rapid.SyncTest(rt, func(rt *rapid.T) {
			before := kcp.DefaultSnmp.Copy()
			s := sim.NewSessSim(cfg.ClockOff, cfg.EntropySeed)
			p, err := sim.NewPair(s, cfg, app)
			if err != nil {
				rt.Fatalf("setup: %v", err)
			}
			setPairLinks(s, p, fs)
			retuned, err = runPairWithRetunes(p, s, retunes)
			if err == nil {
				err = p.Run(fs.EndTime()+600_000, false)
			}
			completed = p.Complete()
			smallReads = p.SmallReads()
			vecWrites = p.VecWrites
			dup = s.Duplicated
			p.Finish(nil)
			d = snmpSince(before)
			if err != nil {
				rt.Fatalf("C01 (session): %v\ntuning calls in mid-connection: %+v\ncase: %+v", err, retunes, describePair(cfg, fs, app))
			}
		})
		cl := []string{"cipher_" + cfg.Cipher}
		if cfg.FEC[0][0] > 0 {
			cl = append(cl, "fec_on")
			if d.FECRecovered > 0 {
				cl = append(cl, "fec_recovery_used")
			}
		}
		if cfg.Listener {
			cl = append(cl, "via_listener")
		}
		if d.Retrans > 0 {
			cl = append(cl, "retransmission")
		}
		if dup > 0 {
			cl = append(cl, "duplicate_delivered")
		}
		if smallReads > 0 {
			cl = append(cl, "read_smaller_than_message")
		}
		if vecWrites > 0 {
			cl = append(cl, "writebuffers_with_several_buffers")
		}
		if retuned > 0 {
			cl = append(cl, "retuned_in_mid_connection")
		}
		if paced {
			cl = append(cl, "paced_writer_through_a_long_outage")
		}
		if completed {
			cl = append(cl, "completed")
		}
		nontrivial := d.Retrans > 0 && (dup > 0 || d.FECRecovered > 0 || smallReads > 0 || d.Repeat > 0)
		rec.Case(hx.Hash64(describePair(cfg, fs, app), retunes), nontrivial, cl...)
		if rec.WantSample() {
			dd := describePair(cfg, fs, app)
			dd["retunes"] = retunes
			dd["snmp_delta"] = d
			rec.Sample(dd)
		}
	})
}

// TestC01FreeRun: the same content oracle with the lock-step loop switched
// off: application goroutines (one writer and one reader per direction), the
// sessions' own goroutines, a scheduler runner and one goroutine per datagram
// in flight run concurrently in virtual time; the Go scheduler chooses the
// interleaving (the thorough tier also builds this test with -race).
func TestC01FreeRun(t *testing.T) {
	rec := hx.NewRecorder(t)
	rapid.Check(t, func(rt *rapid.T) {
		cfg := drawPairCfg(rt, pairGenOpts{})
		fs := sim.DrawFateScript(rt, sim.FateOpts{MaxExplicit: 16, MaxRegimes: 3, MaxRegLen: 200, MaxDelay: 800, MaxOutageMs: 5000, MaxOutages: 1, MaxLossPm: 300})
		app := drawSessApps(rt, pairMSS(cfg), 20, 100_000)
		if cfg.Listener && len(app[0].Writes) == 0 {
			app[0].Writes = []int{1}
		}
		var fr *sim.FreeRun
		completed := false
		var d snmpDelta
		rapid.SyncTest(rt, func(rt *rapid.T) {
			before := kcp.DefaultSnmp.Copy()
			fr = &sim.FreeRun{Cfg: cfg, Fates: fs, App: app}
			var err error
			completed, err = fr.Run(20 * time.Minute)
			d = snmpSince(before)
			if err != nil {
				rt.Fatalf("C01 (free-running sessions): %v\ncase: %+v", err, describePair(cfg, fs, app))
			}
		})
		cl := []string{"cipher_" + cfg.Cipher}
		if completed {
			cl = append(cl, "completed")
		}
		if d.Retrans > 0 {
			cl = append(cl, "retransmission")
		}
		if d.FECRecovered > 0 {
			cl = append(cl, "fec_recovery_used")
		}
		if cfg.Listener {
			cl = append(cl, "via_listener")
		}
		rec.Add("n_reads", fr.Reads.Load())
		rec.Case(hx.Hash64(describePair(cfg, fs, app)), d.Retrans > 0 && fr.Reads.Load() > 3, cl...)
		if rec.WantSample() {
			dd := describePair(cfg, fs, app)
			dd["datagrams"] = fr.Sent.Load()
			dd["dropped"] = fr.Dropped.Load()
			rec.Sample(dd)
		}
	})
}

// TestC01StreamMtuRaise: stream mode merges new bytes into the last queued
// segment. Which segment that is, and how much room it has, depends on the mss
// in force when it was cut: after the application RAISES the MTU in
// mid-connection, older queued segments (cut for the smaller mss) have room
// again while the tail may be exactly full. The script builds exactly that -
// a backlog cut for a small MTU, SetMtu to a larger one, a write that fills the
// tail to the new mss, then more writes - under the C01 content oracle, with a
// lossy network on top.
func TestC01StreamMtuRaise(t *testing.T) {
	rec := hx.NewRecorder(t)
	rapid.Check(t, func(rt *rapid.T) {
		cfg := sim.DrawCoreCfg(rt)
		cfg.Stream = true
		mtu1 := rapid.IntRange(60, 700).Draw(rt, "mtu1")
		mtu2 := rapid.IntRange(mtu1+30, 1400).Draw(rt, "mtu2")
		cfg.EP[0].MTU = mtu1
		cfg.EP[0].SndWnd = rapid.SampledFrom([]int{1, 2, 4}).Draw(rt, "sndwnd") // a backlog stays queued
		mss1, mss2 := mtu1-24, mtu2-24
		full := rapid.IntRange(1, 5).Draw(rt, "fullSegments")
		r := rapid.IntRange(1, mss1-1).Draw(rt, "tail")
		var app [2]sim.AppScript
		app[0].Backlog = 1 << 20 // the writer does not wait for the window: everything is queued at once
		app[0].Writes = []int{full*mss1 + r}
		app[0].GapMs = []int32{0}
		// after the raise (at 1 ms): fill the tail exactly, perhaps some full segments more
		app[0].Writes = append(app[0].Writes, (mss2-r)+rapid.IntRange(0, 2).Draw(rt, "moreFull")*mss2)
		app[0].GapMs = append(app[0].GapMs, 2)
		for i, n := 0, rapid.IntRange(1, 6).Draw(rt, "later"); i < n; i++ {
			app[0].Writes = append(app[0].Writes, rapid.SampledFrom([]int{1, 7, 100, mss1, mss2 - 1, mss2, mss2 + 1}).Draw(rt, "laterSize"))
			app[0].GapMs = append(app[0].GapMs, int32(rapid.SampledFrom([]int{0, 0, 1, 30}).Draw(rt, "laterGap")))
		}
		app[0].ReadBufs = sim.DrawReadBufs(rt, "rb.", mss2)
		fs := sim.DrawFateScript(rt, sim.FateOpts{MaxExplicit: 8, MaxRegimes: 2, MaxRegLen: 60, MaxDelay: 300, MaxLossPm: 200})
		if fs.BaseDelay[0] < 20 {
			fs.BaseDelay[0], fs.BaseDelay[1] = 20, 20 // no acknowledgement is back before the writes are done
		}
		raised := false
		var st sim.CoreStats
		rapid.SyncTest(rt, func(rt *rapid.T) {
			s := sim.NewCoreSim(cfg, fs, app)
			s.Ops = []sim.TimedOp{{At: 1, Name: fmt.Sprintf("SetMtu(%d) at the writer", mtu2), Fn: func(s *sim.CoreSim) error {
				raised = s.K[0].SetMtu(mtu2) == 0
				return nil
			}}}
			err := s.Run(fs.EndTime() + 900_000)
			st = s.Stats
			if err != nil {
				rt.Fatalf("C01 (raw core, stream mode, MTU raised from %d to %d with %d+1 segments queued): %v\ncase: %+v", mtu1, mtu2, full, err, describeCore(cfg, fs, app))
			}
		})
		cl := coreClasses(&st)
		if raised {
			cl = append(cl, "mtu_raised_with_a_backlog_queued")
		}
		rec.Case(hx.Hash64(cfg, fs.Describe(), app, mtu1, mtu2), raised && st.Done, cl...)
		if rec.WantSample() {
			d := describeCore(cfg, fs, app)
			d["mtu_raise"] = []int{mtu1, mtu2}
			rec.Sample(d)
		}
	})
}
