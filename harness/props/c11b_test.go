package props

// C11, conversations restarted from the same address: a peer talks to a
// listener, both applications close their sessions, and the same address
// starts again - with the same conversation id or another one, with or without
// other peers talking to the listener in between. The server application has
// closed its session, so what arrives now is a new peer: exactly one Accept,
// and the new stream is delivered to the new session.

import (
	"bytes"
	"fmt"
	"io"
	"net"
	"testing"
	"time"

	kcp "github.com/xtaci/kcp-go/v5"
	"pgregory.net/rapid"
	"verif/harness/hx"
	"verif/harness/sim"
	"verif/harness/wire"
)

func TestC11Restart(t *testing.T) {
	rec := hx.NewRecorder(t)
	rapid.Check(t, func(rt *rapid.T) {
		cipher := rapid.SampledFrom([]string{"null", "aes-128", "salsa20", "aes-128-gcm", "none"}).Draw(rt, "cipher")
		key := rapid.SliceOfN(rapid.Byte(), wire.KeyLen(cipher), wire.KeyLen(cipher)).Draw(rt, "key")
		fec := rapid.SampledFrom([][2]int{{0, 0}, {0, 0}, {2, 1}}).Draw(rt, "fec")
		conv := rapid.OneOf(rapid.SampledFrom([]uint32{0, 1, 0xffffffff}), rapid.Uint32()).Draw(rt, "conv")
		rounds := rapid.IntRange(2, 4).Draw(rt, "incarnations")
		sameConv := rapid.SliceOfN(rapid.Bool(), rounds, rounds).Draw(rt, "sameConv")
		others := rapid.SliceOfN(rapid.IntRange(0, 2), rounds, rounds).Draw(rt, "otherPeersBetween")
		serverFirst := rapid.SliceOfN(rapid.Bool(), rounds, rounds).Draw(rt, "serverClosesFirst")
		gap := rapid.SliceOfN(rapid.SampledFrom([]int64{1, 50, 700, 40_000}), rounds, rounds).Draw(rt, "gapMs")
		sizes := rapid.SliceOfN(rapid.IntRange(1, 5000), rounds, rounds).Draw(rt, "bytes")
		if fec[0] > 0 && hx.IsKnown(c11KeyStaleFEC) {
			// listed finding (FEC packets carry no conversation id): not this test's subject
			fec = [2]int{0, 0}
		}
		sameRestarts, quietRestarts := 0, 0
		var fail string
		rapid.SyncTest(rt, func(rt *rapid.T) {
			s := sim.NewSessSim(0, 11)
			s.DefaultDelay = 2
			blk := func() kcp.BlockCrypt { b, _ := sim.NewBlockCrypt(cipher, key); return b }
			laddr := &net.UDPAddr{IP: net.IPv4(10, 0, 0, 1), Port: 29900}
			caddr := &net.UDPAddr{IP: net.IPv4(10, 0, 0, 2), Port: 4000}
			lconn, cconn := s.Net.Listen(laddr), s.Net.Listen(caddr)
			L, _ := kcp.ServeConn(blk(), fec[0], fec[1], lconn)
			var open []*kcp.UDPSession
			var conns []*sim.PConn
			defer func() {
				for _, x := range open {
					x.Close()
				}
				tbl, _ := L.VerifSessions()
				for a := range tbl {
					if x := L.VerifSession(a); x != nil {
						x.Close()
					}
				}
				L.Close()
				lconn.Close()
				cconn.Close()
				for _, c := range conns {
					c.Close()
				}
				s.Drain(5000)
			}()
			at := func(ms int64) time.Time { return s.Start.Add(time.Duration(ms) * time.Millisecond) }
			// one conversation: dial, write, accept, read everything, no second Accept
			talk := func(who string, c uint32, pc *sim.PConn, payload []byte) (cli, srv *kcp.UDPSession, err string) {
				cli, _ = kcp.NewConn3(c, laddr, blk(), fec[0], fec[1], pc)
				cli.SetNoDelay(1, 10, 2, 1)
				open = append(open, cli)
				if _, e := cli.Write(payload); e != nil {
					return cli, nil, fmt.Sprintf("%s: Write: %v", who, e)
				}
				L.SetReadDeadline(at(s.Now() + 5000))
				acc := s.Go("Accept", func() (int, error, any) { x, err := L.AcceptKCP(); return 0, err, x })
				s.SleepTo(s.Now() + 5100)
				if !acc.Done() || acc.Err != nil {
					return cli, nil, fmt.Sprintf("%s (conv %#x) sent %d bytes to the listener and 5 s later Accept has not returned a session for it (%v)", who, c, len(payload), acc.Err)
				}
				srv = acc.Val.(*kcp.UDPSession)
				open = append(open, srv)
				if srv.RemoteAddr().String() != pc.LocalAddr().String() || srv.GetConv() != c {
					return cli, srv, fmt.Sprintf("%s (conv %#x at %v): Accept returned a session for conv %#x at %v", who, c, pc.LocalAddr(), srv.GetConv(), srv.RemoteAddr())
				}
				got := make([]byte, len(payload))
				srv.SetReadDeadline(at(s.Now() + 20_000))
				rd := s.Go("Read", func() (int, error, any) { n, err := io.ReadFull(srv, got); return n, err, nil })
				s.SleepTo(s.Now() + 20_100)
				if !rd.Done() || rd.Err != nil || !bytes.Equal(got, payload) {
					return cli, srv, fmt.Sprintf("%s (conv %#x): the accepted session did not deliver the %d bytes written within 20 s on a loss-free path (read %d, %v)", who, c, len(payload), rd.N, rd.Err)
				}
				if _, backlog := L.VerifSessions(); backlog != 0 {
					return cli, srv, fmt.Sprintf("%s (conv %#x): %d further session(s) wait in the accept backlog although no other peer has spoken", who, c, backlog)
				}
				return cli, srv, ""
			}
			c := conv
			for r := 0; r < rounds && fail == ""; r++ {
				payload := make([]byte, sizes[r])
				for i := range payload {
					payload[i] = byte(0x10*r + i%13)
				}
				who := fmt.Sprintf("incarnation %d of the peer", r+1)
				cli, srv, e := talk(who, c, cconn, payload)
				if e != "" {
					fail = e
					return
				}
				// both applications close; the order and the pause are drawn
				if serverFirst[r] {
					srv.Close()
					s.SleepTo(s.Now() + 20)
					cli.Close()
				} else {
					cli.Close()
					s.SleepTo(s.Now() + 20)
					srv.Close()
				}
				s.SleepTo(s.Now() + gap[r])
				for o := 0; o < others[r]; o++ {
					oa := &net.UDPAddr{IP: net.IPv4(10, 0, 7, byte(10*r+o+1)), Port: 4100 + o}
					oc := s.Net.Listen(oa)
					conns = append(conns, oc)
					ocli, osrv, e := talk(fmt.Sprintf("another peer (%v)", oa), c^uint32(o+1), oc, []byte{9, 9, 9})
					if e != "" {
						fail = e
						return
					}
					ocli.Close()
					osrv.Close()
					s.SleepTo(s.Now() + 20)
				}
				if r+1 < rounds {
					if sameConv[r] {
						sameRestarts++
						if others[r] == 0 {
							quietRestarts++
						}
					} else {
						c += 7919
					}
				}
			}
		})
		if fail != "" {
			rt.Fatalf("C11 (restart from the same address): %s\ncipher %s, FEC %v, first conv %#x, same conv on restart %v, other peers in between %v, server closes first %v, pauses %v ms", fail, cipher, fec, conv, sameConv, others, serverFirst, gap)
		}
		cl := []string{"restart_cases"}
		if sameRestarts > 0 {
			cl = append(cl, "restart_with_the_same_conversation_id")
		}
		if quietRestarts > 0 {
			cl = append(cl, "restart_with_no_other_peer_in_between")
		}
		rec.Case(hx.Hash64(cipher, key, fec, conv, sameConv, others, serverFirst, gap, sizes), sameRestarts > 0, cl...)
		if rec.WantSample() {
			rec.Sample(map[string]any{"cipher": cipher, "fec": fec, "conv": conv, "incarnations": rounds, "same_conv": sameConv, "other_peers_between": others, "server_closes_first": serverFirst, "pause_ms": gap})
		}
	})
}
