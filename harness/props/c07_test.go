package props

// C07: as soon as any dataShards distinct packets of a group have arrived
// (any order, duplicates, differing sizes) every missing data packet is
// reconstructed byte for byte with its exact length; nothing else is ever
// emitted; losing all parity never harms.

import (
	"fmt"
	"testing"

	kcp "github.com/xtaci/kcp-go/v5"
	"pgregory.net/rapid"
	"verif/harness/hx"
)

const c07KeyFresh = "C07:fresh-decoder-first-ids-in-upper-half"

type c07Case struct {
	D, P     int
	Base     uint32 // first sequence id of the group (multiple of D+P)
	Sizes    []int
	Order    []int // indices into the group's packets, in arrival order (may repeat = duplicate)
	Fresh    bool  // decoder not seeked: horizon starts at 0
	NoParity bool
}

func pawsOf(n int) uint32 { return 0xffffffff / uint32(n) * uint32(n) }

// c07Run feeds one group's packets in the given order and applies the oracle.
func c07Run(c c07Case) (recovered int, err error) {
	n := c.D + c.P
	st := newFECStream(c.D, c.P, c.Base, 0x1234)
	pk := st.group(c.Sizes, c.NoParity)
	dec := kcp.VerifNewFECDecoder(c.D, c.P)
	if !c.Fresh {
		dec.Seek(c.Base)
	}
	var ids []uint32
	for i := 0; i < c.D; i++ {
		ids = append(ids, (c.Base+uint32(i))%pawsOf(n))
	}
	fed := map[int]bool{}
	emitted := map[uint32]bool{}
	complete := false
	for step, idx := range c.Order {
		if idx >= len(pk) {
			continue // parity index of a group whose parity was skipped
		}
		out := dec.Decode(pk[idx].Raw)
		fed[idx] = true
		for _, r := range out {
			id, e := checkRecovered(r, st.bodies, ids, func(id uint32) bool {
				for i, x := range ids {
					if x == id {
						return !emitted[id] && !fed[i]
					}
				}
				return false
			})
			if e != nil && err == nil {
				err = fmt.Errorf("after feeding packet %d (step %d): %v", idx, step, e)
			}
			emitted[id] = true
			recovered++
		}
		dec.Release(out)
		if err != nil {
			return
		}
		if !complete && len(fed) >= c.D {
			complete = true
			// the d-th distinct packet has arrived: every data packet not fed so far must have been emitted
			for i := 0; i < c.D; i++ {
				if !fed[i] && !emitted[ids[i]] {
					return recovered, fmt.Errorf("%d distinct packets of the group (d=%d) have arrived, data packet %d (id %d) was neither received nor reconstructed", len(fed), c.D, i, ids[i])
				}
			}
		}
	}
	return
}

// permutations of k elements out of n indices, each passed to f.
func forEachArrangement(n, k int, f func([]int)) {
	used := make([]bool, n)
	cur := make([]int, 0, k)
	var rec func()
	rec = func() {
		if len(cur) == k {
			f(cur)
			return
		}
		for i := 0; i < n; i++ {
			if !used[i] {
				used[i] = true
				cur = append(cur, i)
				rec()
				cur = cur[:len(cur)-1]
				used[i] = false
			}
		}
	}
	rec()
}

func c07Bases(n int) []uint32 {
	paws := pawsOf(n)
	al := func(x uint32) uint32 { return x / uint32(n) * uint32(n) }
	return []uint32{0, al(1 << 20), al(1<<31 - uint32(n)), al(1 << 31), al(1<<31 + uint32(3*n)), al(3_000_000_000), paws - uint32(3*n), paws - uint32(2*n), paws - uint32(n)}
}

func TestC07Exhaustive(t *testing.T) {
	rec := hx.NewRecorder(t)
	var rp c07Case
	if hx.ReplayFile(&rp) {
		if _, err := c07Run(rp); err != nil {
			t.Fatalf("replay %+v: %v", rp, err)
		}
		return
	}
	maxN := hx.EnvInt("C07_MAXN", 5)
	shard, nshards := hx.Shard()
	sizeVectors := [][]int{{100}, {30, 31, 32, 33, 34, 35}, {1400, 1, 1, 1, 1}, {24, 2, 0, 700, 0}, {0}}
	var evals, nontriv int64
	classes := map[string]int64{}
	job := 0
	for d := 1; d < maxN; d++ {
		for p := 1; d+p <= maxN; p++ {
			n := d + p
			for _, base := range c07Bases(n) {
				for _, sizes := range sizeVectors {
					for _, fresh := range []bool{false, true} {
						job++
						if job%nshards != shard {
							continue
						}
						upper := base >= 1<<31 && base < pawsOf(n)-uint32(3*n)
						if fresh && upper && hx.IsKnown(c07KeyFresh) {
							rec.Exclude(c07KeyFresh)
							continue
						}
						for k := d; k <= n; k++ {
							forEachArrangement(n, k, func(order []int) {
								c := c07Case{D: d, P: p, Base: base, Sizes: sizes, Order: append([]int(nil), order...), Fresh: fresh}
								r, err := c07Run(c)
								evals++
								asc := true
								for i := 1; i < len(order); i++ {
									if order[i] < order[i-1] {
										asc = false
									}
								}
								if r > 0 && (!asc || base+uint32(n) >= pawsOf(n)) {
									nontriv++
								}
								if r > 0 {
									classes["recovered"]++
								}
								if err != nil {
									hx.Fail(t, c, "C07 (d=%d p=%d, group at id %d, fresh decoder=%v, sizes %v, arrival order %v): %v", d, p, base, fresh, sizes, order, err)
								}
							})
						}
						// all parity lost: data only, every order of every subset
						for k := 1; k <= d; k++ {
							forEachArrangement(d, k, func(order []int) {
								c := c07Case{D: d, P: p, Base: base, Sizes: sizes, Order: append([]int(nil), order...), Fresh: fresh, NoParity: true}
								r, err := c07Run(c)
								evals++
								classes["parity_skipped_or_lost"]++
								if err == nil && r != 0 {
									err = fmt.Errorf("%d packets emitted although no parity exists", r)
								}
								if err != nil {
									hx.Fail(t, c, "C07 (no parity, d=%d p=%d): %v", d, p, err)
								}
							})
						}
					}
				}
			}
		}
	}
	rec.Bulk(evals, nontriv)
	for k, v := range classes {
		rec.Class(k, v)
	}
	rec.Class("exhaustive_orders", evals)
	rec.Exhaustive = true
	rec.Set("max_group_size", maxN)
	rec.Sample(c07Case{D: 3, P: 2, Base: pawsOf(5) - 5, Sizes: []int{1400, 1, 1, 1, 1}, Order: []int{4, 0, 3}})
	rec.Sample(c07Case{D: 2, P: 2, Base: 1 << 31, Sizes: []int{30, 31}, Order: []int{3, 2}, Fresh: false})
}

// TestC07Sampled: larger ratios, duplicates, neighbouring groups interleaved,
// late arrivals, parity skipped by the sender.
func TestC07Sampled(t *testing.T) {
	rec := hx.NewRecorder(t)
	rapid.Check(t, propC07SampledWith(rec))
}

// propC07SampledWith is the property; rec may be nil (fuzzing).
func propC07SampledWith(rec *hx.Recorder) func(*rapid.T) {
	return func(rt *rapid.T) {
		d := rapid.IntRange(1, 20).Draw(rt, "d")
		p := rapid.IntRange(1, 8).Draw(rt, "p")
		if rapid.IntRange(0, 15).Draw(rt, "big") == 0 {
			d = rapid.IntRange(21, 200).Draw(rt, "dbig")
			p = rapid.IntRange(1, 255-d).Draw(rt, "pbig")
		}
		n := d + p
		paws := pawsOf(n)
		ngroups := rapid.IntRange(1, 6).Draw(rt, "ngroups")
		var start uint32
		switch rapid.IntRange(0, 4).Draw(rt, "pos") {
		case 0:
			start = 0
		case 1:
			start = paws - uint32(n*rapid.IntRange(1, ngroups).Draw(rt, "beforeWrap"))
		case 2:
			start = (1<<31)/uint32(n)*uint32(n) - uint32(n*rapid.IntRange(0, ngroups).Draw(rt, "beforeHalf"))
		default:
			start = rapid.Uint32Range(0, paws/uint32(n)-uint32(ngroups)-1).Draw(rt, "group") * uint32(n)
		}
		st := newFECStream(d, p, start, 0xfeed)
		dec := kcp.VerifNewFECDecoder(d, p)
		dec.Seek(start)
		// a decoder with a history: configured with another ratio, it has adopted
		// this sender's ratio from an uninterrupted run of earlier groups of the
		// same stream. From then on it owes exactly what a fresh decoder owes.
		retuned := false
		if n <= 40 && rapid.IntRange(0, 2).Draw(rt, "history") == 0 {
			d2, p2 := rapid.IntRange(1, 12).Draw(rt, "histD"), rapid.IntRange(1, 4).Draw(rt, "histP")
			pre := uint32(((258+3*n)/n + 2) * n)
			if (d2 != d || p2 != p) && start >= pre {
				st2 := newFECStream(d, p, start-pre, 0xfeed)
				dec2 := kcp.VerifNewFECDecoder(d2, p2)
				dec2.Seek(start - pre)
				for g := uint32(0); g < pre/uint32(n); g++ {
					for _, pk := range st2.group([]int{90, 91, 92, 93}, false) {
						dec2.Release(dec2.Decode(pk.Raw))
					}
				}
				if s2 := dec2.State(); s2.DecData == d && s2.DecParity == p && !s2.ShouldTune {
					st, dec, retuned = st2, dec2, true
				}
			}
		}
		sizesKind := rapid.IntRange(0, 3).Draw(rt, "sizes")
		type gstate struct {
			pk      []fecPkt
			ids     []uint32
			fed     map[int]bool
			emitted map[uint32]bool
			done    bool
		}
		var groups []*gstate
		for g := 0; g < ngroups; g++ {
			var sizes []int
			for i := 0; i < d; i++ {
				switch sizesKind {
				case 0:
					sizes = append(sizes, 200)
				case 1:
					sizes = append(sizes, 24+i*3)
				case 2:
					sizes = append(sizes, rapid.SampledFrom([]int{0, 1, 24, 25, 600, 1400}).Draw(rt, "sz"))
				default:
					sizes = append(sizes, rapid.IntRange(0, 1400).Draw(rt, "szu"))
				}
			}
			skip := rapid.IntRange(0, 5).Draw(rt, "skipParity") == 0
			gs := &gstate{pk: st.group(sizes, skip), fed: map[int]bool{}, emitted: map[uint32]bool{}}
			for i := 0; i < d; i++ {
				gs.ids = append(gs.ids, gs.pk[i].Seq)
			}
			groups = append(groups, gs)
		}
		// arrival schedule: (group, packet) pairs; within the horizon: a packet of
		// group g is only fed while g >= newest group started - 2
		type arrival struct{ g, i int }
		var sched []arrival
		for g, gs := range groups {
			keep := rapid.IntRange(0, len(gs.pk)).Draw(rt, "keep")
			perm := rapid.Permutation(seq(len(gs.pk))).Draw(rt, "perm")
			for _, i := range perm[:keep] {
				sched = append(sched, arrival{g, i})
				if rapid.IntRange(0, 9).Draw(rt, "dup") == 0 {
					sched = append(sched, arrival{g, i})
				}
			}
		}
		// interleave neighbouring groups by a bounded shuffle
		for i := range sched {
			j := i + rapid.IntRange(0, min(2*n, len(sched)-1-i)).Draw(rt, "swap")
			sched[i], sched[j] = sched[j], sched[i]
		}
		newest := -1
		recovered, dups, interleaved := 0, 0, 0
		lastG := -1
		for _, a := range sched {
			if a.g < newest-2 {
				continue // outside the "few most recent groups": nothing is demanded, skip feeding
			}
			newest = max(newest, a.g)
			if a.g != lastG && lastG >= 0 {
				interleaved++
			}
			lastG = a.g
			gs := groups[a.g]
			if gs.fed[a.i] {
				dups++
			}
			out := dec.Decode(gs.pk[a.i].Raw)
			gs.fed[a.i] = true
			for _, r := range out {
				id, err := checkRecovered(r, st.bodies, gs.ids, func(id uint32) bool {
					for i, x := range gs.ids {
						if x == id {
							return !gs.emitted[id] && !gs.fed[i]
						}
					}
					return false
				})
				if err != nil {
					rt.Fatalf("C07 (d=%d p=%d start=%d group %d packet %d): %v", d, p, start, a.g, a.i, err)
				}
				gs.emitted[id] = true
				recovered++
			}
			dec.Release(out)
			if !gs.done && len(gs.fed) >= d {
				gs.done = true
				for i := 0; i < d; i++ {
					if !gs.fed[i] && !gs.emitted[gs.ids[i]] {
						rt.Fatalf("C07 (d=%d p=%d start=%d): group %d has %d distinct packets, data packet %d (id %d) neither received nor reconstructed", d, p, start, a.g, len(gs.fed), i, gs.ids[i])
					}
				}
			}
		}
		var cl []string
		if recovered > 0 {
			cl = append(cl, "recovered")
		}
		if dups > 0 {
			cl = append(cl, "duplicates")
		}
		if interleaved > ngroups {
			cl = append(cl, "groups_interleaved")
		}
		if uint64(start)+uint64(n*ngroups) >= uint64(paws) {
			cl = append(cl, "wraps")
		}
		if d+p > 20 {
			cl = append(cl, "large_ratio")
		}
		if retuned {
			cl = append(cl, "decoder_re_tuned_from_another_ratio")
		}
		rec.Case(hx.Hash64(d, p, start, sched, retuned), recovered > 0 && (dups > 0 || interleaved > ngroups || uint64(start)+uint64(n*ngroups) >= uint64(paws)), cl...)
		if rec.WantSample() {
			rec.Sample(map[string]any{"d": d, "p": p, "start": start, "groups": ngroups, "arrivals": len(sched), "recovered": recovered})
		}
	}
}

var propC07Sampled = propC07SampledWith(nil)

func seq(n int) []int {
	s := make([]int, n)
	for i := range s {
		s[i] = i
	}
	return s
}

// TestC07KnownFresh is the reproducer of the listed finding c07KeyFresh.
func TestC07KnownFresh(t *testing.T) {
	rec := hx.NewRecorder(t)
	c := c07Case{D: 2, P: 1, Base: 3_000_000_000 / 3 * 3, Sizes: []int{100}, Order: []int{0, 2}, Fresh: true}
	_, err := c07Run(c)
	rec.Case(1, true, "reproducer")
	rec.Case(2, true, "reproducer")
	if err != nil {
		rec.Finding(c07KeyFresh, fmt.Sprintf("fresh decoder, first group at id %d: %v", c.Base, err))
	}
}
