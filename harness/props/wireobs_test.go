package props

// wireObserver is the independent reader of everything a session writes to
// its PacketConn (C09). It knows the key and the documented layout only.

import (
	"bytes"
	"fmt"

	"github.com/klauspost/reedsolomon"
	"verif/harness/sim"
	"verif/harness/wire"
)

type fecGroup struct {
	bodies  map[int][]byte // position in group -> size-prefixed payload
	parity  map[int][]byte
	maxBody int
}

type wireObserver struct {
	crypto   *wire.Crypto
	fec      bool
	d, p     int
	conv     uint32
	sid      uint32
	stream   bool
	mtuModel func() int // largest datagram the session may emit now
	// clock, when set, gives the (virtual) emission time in ms: parity may only be
	// skipped when the group's last data packet came >= 500 ms after the previous
	// data packet (the documented rule); anything else weakens FEC
	clock        func() int64
	lastDataAt   int64
	haveDataAt   bool
	expectParity bool
	gapAtClose   int64

	segs    map[uint32][]byte // PUSH payload by sn (first sighting)
	nextSn  uint32
	nextOff int64
	written func() int64 // bytes accepted from the writer so far
	nonces  map[string]bool
	dgrams  map[string]bool
	haveID  bool
	lastID  uint32
	groups  map[uint32]*fecGroup
	rs      reedsolomon.Encoder
	paws    uint32

	// statistics
	Datagrams, MultiSeg, Parity, OOB, Retrans, GroupsChecked, PureCtl, MaxLen int
	OOBPayloads                                                               [][]byte
	FECIDs                                                                    []uint32
}

func newWireObserver(c *wire.Crypto, fec [2]int, conv, sid uint32, stream bool) *wireObserver {
	o := &wireObserver{crypto: c, conv: conv, sid: sid, stream: stream, segs: map[uint32][]byte{}, nonces: map[string]bool{}, dgrams: map[string]bool{}, groups: map[uint32]*fecGroup{}}
	if fec[0] > 0 && fec[1] > 0 {
		o.fec, o.d, o.p = true, fec[0], fec[1]
		o.rs, _ = reedsolomon.New(o.d, o.p)
		n := uint32(o.d + o.p)
		o.paws = 0xffffffff / n * n
	}
	return o
}

// Observe checks one emitted datagram.
func (o *wireObserver) Observe(raw []byte) error {
	o.Datagrams++
	o.MaxLen = max(o.MaxLen, len(raw))
	if o.mtuModel != nil {
		if m := o.mtuModel(); len(raw) > m {
			return fmt.Errorf("datagram of %d bytes exceeds the session MTU %d", len(raw), m)
		}
	}
	nonce, payload, err := o.crypto.Open(raw)
	if err != nil {
		return fmt.Errorf("independent decoder cannot open the datagram (%d bytes): %v", len(raw), err)
	}
	if !o.crypto.IsNull() {
		if o.dgrams[string(raw)] {
			return fmt.Errorf("two identical datagrams emitted under a cipher (%d bytes)", len(raw))
		}
		o.dgrams[string(raw)] = true
		if o.nonces[string(nonce)] {
			return fmt.Errorf("nonce %x used for a second datagram", nonce)
		}
		o.nonces[string(nonce)] = true
	}
	f, err := wire.ParseFrame(payload, o.fec)
	if err != nil {
		return fmt.Errorf("frame layout: %v", err)
	}
	if o.fec {
		switch f.Type {
		case wire.TypeOOB:
			o.OOB++
			if f.OOBConv != o.conv {
				return fmt.Errorf("OOB packet carries conv %#x, session conv is %#x", f.OOBConv, o.conv)
			}
			o.OOBPayloads = append(o.OOBPayloads, append([]byte(nil), f.OOB...))
			return nil
		case wire.TypeData, wire.TypeParity:
			if err := o.fecID(&f); err != nil {
				return err
			}
		}
		if f.Type == wire.TypeParity {
			o.Parity++
			return nil
		}
	}
	return o.kcpSegments(f.Segments)
}

func (o *wireObserver) fecID(f *wire.Frame) error {
	n := uint32(o.d + o.p)
	if f.SeqID >= o.paws {
		return fmt.Errorf("FEC sequence id %d is not below the wrap value %d", f.SeqID, o.paws)
	}
	pos := int(f.SeqID % n)
	if (pos < o.d) != (f.Type == wire.TypeData) {
		return fmt.Errorf("FEC id %d is position %d of a %d+%d cycle but the packet type is %#x", f.SeqID, pos, o.d, o.p, f.Type)
	}
	if o.haveID {
		want := (o.lastID + 1) % o.paws
		alt := want
		if int(o.lastID%n) == o.d-1 { // the group's parity may have been skipped
			alt = (o.lastID + 1 + uint32(o.p)) % o.paws
		}
		if f.SeqID != want && f.SeqID != alt {
			return fmt.Errorf("FEC id %d follows id %d (want %d, or %d after a skipped parity block)", f.SeqID, o.lastID, want, alt)
		}
	}
	if o.clock != nil {
		if o.expectParity && o.haveID && f.SeqID != (o.lastID+1)%o.paws {
			return fmt.Errorf("parity block of the group ending at id %d was skipped although its last two data packets were only %d ms apart (parity is skipped only for gaps >= 500 ms): FEC protection weakened", o.lastID, o.gapAtClose)
		}
		o.expectParity = false
		if f.Type == wire.TypeData {
			now := o.clock()
			if pos == o.d-1 { // this data packet completes its group
				o.gapAtClose = now - o.lastDataAt
				o.expectParity = o.haveDataAt && o.gapAtClose < 500
			}
			o.lastDataAt, o.haveDataAt = now, true
		}
	}
	o.haveID, o.lastID = true, f.SeqID
	o.FECIDs = append(o.FECIDs, f.SeqID)
	gid := f.SeqID / n
	g := o.groups[gid]
	if g == nil {
		g = &fecGroup{bodies: map[int][]byte{}, parity: map[int][]byte{}}
		o.groups[gid] = g
		// forget groups long gone
		delete(o.groups, gid-4)
	}
	if f.Type == wire.TypeData {
		g.bodies[pos] = append([]byte(nil), f.Body...)
		g.maxBody = max(g.maxBody, len(f.Body))
		return nil
	}
	g.parity[pos-o.d] = append([]byte(nil), f.Parity...)
	if len(g.parity) == o.p {
		return o.checkParity(gid, g)
	}
	return nil
}

func (o *wireObserver) checkParity(gid uint32, g *fecGroup) error {
	if len(g.bodies) != o.d {
		return fmt.Errorf("FEC group %d: parity emitted but only %d of %d data packets were seen", gid, len(g.bodies), o.d)
	}
	shards := make([][]byte, o.d+o.p)
	for i := 0; i < o.d; i++ {
		shards[i] = make([]byte, g.maxBody)
		copy(shards[i], g.bodies[i])
	}
	for i := 0; i < o.p; i++ {
		shards[o.d+i] = make([]byte, g.maxBody)
	}
	if g.maxBody > 0 {
		if err := o.rs.Encode(shards); err != nil {
			return fmt.Errorf("reference RS encode: %v", err)
		}
	}
	for i := 0; i < o.p; i++ {
		if !bytes.Equal(shards[o.d+i], g.parity[i]) {
			return fmt.Errorf("FEC group %d parity %d is not the Reed-Solomon code of the zero-padded size-prefixed payloads (emitted %d bytes, longest member %d bytes)", gid, i, len(g.parity[i]), g.maxBody)
		}
	}
	o.GroupsChecked++
	return nil
}

func (o *wireObserver) kcpSegments(segs []wire.Segment) error {
	if len(segs) > 1 {
		o.MultiSeg++
	}
	push := 0
	for _, sg := range segs {
		if sg.Conv != o.conv {
			return fmt.Errorf("segment carries conv %#x, session conv is %#x", sg.Conv, o.conv)
		}
		if sg.Cmd != wire.CmdPush {
			continue
		}
		push++
		if sg.Frg != 0 {
			return fmt.Errorf("session segment sn=%d has frg=%d (Write cuts at mss, every segment is a whole message)", sg.Sn, sg.Frg)
		}
		if old, ok := o.segs[sg.Sn]; ok {
			o.Retrans++
			if !o.stream && !bytes.Equal(old, sg.Data) {
				return fmt.Errorf("sn %d retransmitted with different content (%d vs %d bytes)", sg.Sn, len(old), len(sg.Data))
			}
			continue
		}
		o.segs[sg.Sn] = append([]byte(nil), sg.Data...)
	}
	if push == 0 {
		o.PureCtl++
	}
	// reassemble the byte stream from the wire alone
	for {
		d, ok := o.segs[o.nextSn]
		if !ok {
			break
		}
		if i := sim.CheckPayload(d, o.sid, o.nextOff); i >= 0 {
			return fmt.Errorf("stream reassembled from the wire differs from what was written at offset %d (sn %d)", o.nextOff+int64(i), o.nextSn)
		}
		o.nextOff += int64(len(d))
		if o.written != nil && o.nextOff > o.written() {
			return fmt.Errorf("wire carries %d stream bytes, only %d were written", o.nextOff, o.written())
		}
		o.nextSn++
	}
	return nil
}
