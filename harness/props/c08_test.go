package props

// C08: every cipher round-trips every length 0..1500, in place and out of
// place; block ciphers equal textbook CFB (crypto/cipher) with the fixed IV;
// AEAD seals and opens inside the packet buffer without reallocating.

import (
	"bytes"
	"crypto/aes"
	"crypto/cipher"
	"fmt"
	"sync"
	"testing"

	kcp "github.com/xtaci/kcp-go/v5"
	"verif/harness/hx"
	"verif/harness/sim"
	"verif/harness/wire"
)

var c08Ciphers = []string{"aes-128", "aes-192", "aes-256", "sm4", "twofish", "3des", "cast5", "blowfish", "tea", "xtea", "salsa20", "xor", "none"}

func c08Content(kind int, n int, seed uint64) []byte {
	b := make([]byte, n)
	switch kind {
	case 0:
	case 1:
		for i := range b {
			b[i] = 0xff
		}
	default:
		x := seed
		for i := range b {
			x = x*6364136223846793005 + 1442695040888963407
			b[i] = byte(x >> 33)
		}
	}
	return b
}

type c08Point struct {
	Cipher  string
	Len     int
	InPlace bool
	Decrypt bool
	Content int
	Seed    uint64
	KeyIdx  int
}

func c08Check(pt c08Point, blk kcp.BlockCrypt, ref *wire.Crypto) error {
	src := c08Content(pt.Content, pt.Len, pt.Seed)
	orig := append([]byte(nil), src...)
	want := make([]byte, pt.Len)
	ref.Stream(want, orig, pt.Decrypt)
	var dst []byte
	if pt.InPlace {
		dst = src
	} else {
		dst = make([]byte, pt.Len)
		for i := range dst {
			dst[i] = 0x5a // canary: every byte must be written
		}
	}
	if pt.Decrypt {
		blk.Decrypt(dst, src)
	} else {
		blk.Encrypt(dst, src)
	}
	if !bytes.Equal(dst, want) {
		i := 0
		for i < len(dst) && dst[i] == want[i] {
			i++
		}
		op := "Encrypt"
		if pt.Decrypt {
			op = "Decrypt"
		}
		return fmt.Errorf("%s %s of %d bytes (in place=%v) differs from the reference (%s) at byte %d: got %#x want %#x", pt.Cipher, op, pt.Len, pt.InPlace, refName(pt.Cipher), i, dst[i], want[i])
	}
	if !pt.InPlace && !bytes.Equal(src, orig) {
		return fmt.Errorf("%s: out-of-place operation modified its source (%d bytes)", pt.Cipher, pt.Len)
	}
	// round trip through the library alone
	back := make([]byte, pt.Len)
	if pt.Decrypt {
		blk.Encrypt(back, dst)
	} else {
		blk.Decrypt(back, dst)
	}
	if pt.Len > 0 && !bytes.Equal(back, orig) {
		return fmt.Errorf("%s: round trip of %d bytes (in place=%v, decrypt first=%v) does not give back the original", pt.Cipher, pt.Len, pt.InPlace, pt.Decrypt)
	}
	return nil
}

func refName(c string) string {
	switch c {
	case "salsa20":
		return "salsa20.XORKeyStream, first 8 bytes as nonce left in clear"
	case "xor":
		return "pbkdf2 table xor"
	case "none":
		return "identity"
	}
	return "crypto/cipher CFB with the fixed IV"
}

func TestC08Grid(t *testing.T) {
	rec := hx.NewRecorder(t)
	var rp c08Point
	replay := hx.ReplayFile(&rp)
	shard, nshards := hx.Shard()
	seed := hx.Seed()
	contents := hx.EnvInt("C08_CONTENTS", 3) // 0: zeros, 1: 0xff, 2..: pseudo-random
	var evals, nontriv int64
	n := 0
	keys := hx.EnvInt("C08_KEYS", 1)
	if replay {
		keys = rp.KeyIdx + 1
	}
	for ck := 0; ck < len(c08Ciphers)*keys; ck++ {
		ci, name := ck%len(c08Ciphers), c08Ciphers[ck%len(c08Ciphers)]
		key := c08Content(2, wire.KeyLen(name), seed+uint64(ci)*977+uint64(ck/len(c08Ciphers))*7919)
		// the application's key buffer is wiped after the cipher has been made
		// (ordinary key hygiene): the cipher must have its own copy
		handed := append([]byte(nil), key...)
		blk, err := sim.NewBlockCrypt(name, handed)
		if err != nil {
			t.Fatal(err)
		}
		for i := range handed {
			handed[i] = 0xEE
		}
		ref, err := wire.NewCrypto(name, key)
		if err != nil {
			t.Fatal(err)
		}
		for l := 0; l <= 1500; l++ {
			n++
			if !replay && n%nshards != shard {
				continue
			}
			for _, inplace := range []bool{true, false} {
				for _, dec := range []bool{false, true} {
					for c := 0; c < contents; c++ {
						pt := c08Point{name, l, inplace, dec, c, seed ^ uint64(l)<<20 ^ uint64(c) ^ uint64(ck/len(c08Ciphers))<<40, ck / len(c08Ciphers)}
						if replay && (pt.Cipher != rp.Cipher || pt.Len != rp.Len || pt.InPlace != rp.InPlace || pt.Decrypt != rp.Decrypt || pt.KeyIdx != rp.KeyIdx) {
							continue
						}
						evals++
						if !(l == 1500 && !inplace) {
							nontriv++
						}
						if err := c08Check(pt, blk, ref); err != nil {
							if name == "salsa20" && l >= 1 && l < 8 && !inplace && hx.IsKnown("C08:salsa20-short-out-of-place") {
								rec.Exclude("C08:salsa20-short-out-of-place")
								continue
							}
							hx.Fail(t, pt, "C08: %v", err)
						}
					}
				}
			}
		}
	}
	rec.Bulk(evals, nontriv)
	rec.Exhaustive = true
	rec.Class("grid_points", evals)
	rec.Set("grid", "13 ciphers x lengths 0..1500 x {in place, out of place} x {encrypt, decrypt} x contents {zeros, 0xff, pseudo-random...}")
	rec.Sample(c08Point{"aes-128", 1499, true, true, 2, seed, 0})
	rec.Sample(c08Point{"salsa20", 7, false, false, 2, seed, 0})
	rec.Sample(c08Point{"3des", 71, false, true, 0, seed, 0})
}

// TestC08AEAD: Seal into the packet buffer shares the buffer's backing array;
// Open in place returns the plaintext; a buffer too small makes Seal refuse.
func TestC08AEAD(t *testing.T) {
	rec := hx.NewRecorder(t)
	seed := hx.Seed()
	type sealer interface {
		Seal(dst, nonce, plaintext, additionalData []byte) []byte
		Open(dst, nonce, ciphertext, additionalData []byte) ([]byte, error)
		NonceSize() int
		Overhead() int
	}
	var evals int64
	for _, keylen := range []int{16, 32} {
		key := c08Content(2, keylen, seed+uint64(keylen))
		blk, err := kcp.NewAESGCMCrypt(key)
		if err != nil {
			t.Fatal(err)
		}
		a := blk.(sealer)
		b, _ := aes.NewCipher(key)
		ref, _ := cipher.NewGCM(b)
		ns, ov := a.NonceSize(), a.Overhead()
		for l := 0; l+ns+ov <= 1500; l++ {
			evals++
			buf := make([]byte, 1500) // the packet buffer, as the session uses it
			pkt := buf[:ns+l]
			copy(pkt, c08Content(2, ns+l, seed+uint64(l)))
			plain := append([]byte(nil), pkt[ns:]...)
			nonce := append([]byte(nil), pkt[:ns]...)
			out := a.Seal(pkt[:ns], pkt[:ns], pkt[ns:], nil)
			if &out[0] != &buf[0] {
				hx.Fail(t, map[string]int{"len": l, "key": keylen}, "C08: AEAD Seal of %d bytes reallocated the packet buffer", l)
			}
			if len(out) != ns+l+ov {
				hx.Fail(t, map[string]int{"len": l, "key": keylen}, "C08: AEAD Seal of %d bytes returned %d bytes, want nonce+plaintext+tag = %d", l, len(out), ns+l+ov)
			}
			want := ref.Seal(nil, nonce, plain, nil)
			if !bytes.Equal(out[ns:], want) || !bytes.Equal(out[:ns], nonce) {
				hx.Fail(t, map[string]int{"len": l, "key": keylen}, "C08: AEAD Seal of %d bytes differs from crypto/cipher GCM", l)
			}
			ct := out[ns:]
			pt, err := a.Open(ct[:0], out[:ns], ct, nil)
			if err != nil || !bytes.Equal(pt, plain) {
				hx.Fail(t, map[string]int{"len": l, "key": keylen}, "C08: AEAD Open in place of %d bytes: err=%v", l, err)
			}
			if l > 0 && &pt[0] != &buf[ns] {
				hx.Fail(t, map[string]int{"len": l, "key": keylen}, "C08: AEAD Open of %d bytes did not decrypt in place", l)
			}
		}
		// a buffer without room for the tag: Seal must refuse (panic), not reallocate
		for _, room := range []int{0, 1, ov - 1} {
			evals++
			small := make([]byte, ns+100+room)
			refused := func() (r bool) {
				defer func() { r = recover() != nil }()
				a.Seal(small[:ns], small[:ns], small[ns:ns+100], nil)
				return false
			}()
			if !refused {
				hx.Fail(t, map[string]int{"room": room, "key": keylen}, "C08: AEAD Seal with %d bytes of room for a %d-byte tag did not refuse", room, ov)
			}
		}
	}
	rec.Bulk(evals, evals)
	rec.Exhaustive = true
	rec.Class("aead_points", evals)
	rec.Sample(map[string]any{"cipher": "aes-128-gcm", "plaintext_len": 1472, "buffer": 1500})
}

// TestC08Concurrent: many goroutines use one BlockCrypt at once; every result
// equals the single-threaded reference.
func TestC08Concurrent(t *testing.T) {
	rec := hx.NewRecorder(t)
	seed := hx.Seed()
	rounds := hx.EnvInt("C08_ROUNDS", 40)
	var evals int64
	for ci, name := range c08Ciphers {
		key := c08Content(2, wire.KeyLen(name), seed+uint64(ci)*31)
		blk, _ := sim.NewBlockCrypt(name, key)
		ref, _ := wire.NewCrypto(name, key)
		var wg sync.WaitGroup
		errs := make(chan error, 64)
		for g := 0; g < 8; g++ {
			g := g
			wg.Add(1)
			go func() {
				defer wg.Done()
				for r := 0; r < rounds; r++ {
					l := 8 + (g*131+r*977)%1493
					pt := c08Point{name, l, r%2 == 0, (g+r)%3 == 0, 2, seed + uint64(g*1000+r), 0}
					if err := c08Check(pt, blk, ref); err != nil {
						select {
						case errs <- err:
						default:
						}
						return
					}
				}
			}()
		}
		wg.Wait()
		evals += int64(8 * rounds)
		select {
		case err := <-errs:
			hx.Fail(t, map[string]string{"cipher": name}, "C08 (8 concurrent callers on one BlockCrypt): %v", err)
		default:
		}
	}
	rec.Bulk(evals, evals)
	rec.Class("concurrent_calls", evals)
	rec.Sample(map[string]any{"cipher": "aes-256", "goroutines": 8, "rounds_each": rounds})
}
