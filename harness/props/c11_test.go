package props

// C11: sessions sharing a listener socket are independent; every new peer
// produces exactly one Accept; foreign traffic never appears in, stalls or
// closes a session; a same-address packet with another conversation id is
// ignored unless it starts a new conversation; a dialled session ignores
// datagrams that do not come from its peer.

import (
	"encoding/binary"
	"fmt"
	"net"
	"os"
	"reflect"
	"testing"
	"time"

	kcp "github.com/xtaci/kcp-go/v5"
	"pgregory.net/rapid"
	"verif/harness/hx"
	"verif/harness/sim"
	"verif/harness/wire"
)

type c11Peer struct {
	addr           net.Addr
	conn           *sim.PConn
	inc            int // incarnation number at this address
	conv           uint32
	sid            uint32
	cli            *kcp.UDPSession
	writes         []int
	wi             int
	wcall          *sim.Call
	wbuf           []byte
	sent           int64
	total          int64
	srv            *kcp.UDPSession
	accepts        int
	recv           int64
	rcall          *sim.Call
	rbuf           []byte
	reconnectAfter int // reconnect (new conv) after this many writes, -1 never
	closedOld      []*kcp.UDPSession
	reached        bool // at least one datagram of this incarnation reached the listener
	openerIn       bool // a data packet of this incarnation that starts with sn 0 has been handed to the listener
	openerChecked  bool
}

func c11Sid(addr string, conv uint32) uint32 {
	h := uint32(2166136261)
	for i := 0; i < len(addr); i++ {
		h = (h ^ uint32(addr[i])) * 16777619
	}
	return h ^ conv*2654435761
}

func TestC11Isolation(t *testing.T) {
	rec := hx.NewRecorder(t)
	rapid.Check(t, func(rt *rapid.T) {
		cipher := rapid.SampledFrom([]string{"null", "aes-128", "salsa20", "aes-128-gcm", "xor", "none", "3des"}).Draw(rt, "cipher")
		key := rapid.SliceOfN(rapid.Byte(), wire.KeyLen(cipher), wire.KeyLen(cipher)).Draw(rt, "key")
		fec := rapid.SampledFrom([][2]int{{0, 0}, {0, 0}, {2, 1}, {3, 2}}).Draw(rt, "fec")
		npeers := rapid.IntRange(1, 8).Draw(rt, "npeers")
		crypto, _ := wire.NewCrypto(cipher, key)
		mss := sim.SessionMSS(0, crypto, fec[0] > 0)
		type peerPlan struct {
			host, port int
			conv       uint32
			writes     []int
			reconnect  int
			fs         *sim.FateScript
		}
		var plans []peerPlan
		for i := 0; i < npeers; i++ {
			// any 32-bit value is a legal conversation id, 0 and 0xffffffff included
			pl := peerPlan{host: 10 + i, port: 4000 + i, conv: rapid.OneOf(rapid.SampledFrom([]uint32{0, 0, 1, 0xffffffff, 0x80000000}), rapid.Uint32()).Draw(rt, "conv")}
			if i > 0 && rapid.IntRange(0, 3).Draw(rt, "sameIP") == 0 {
				pl.host = plans[i-1].host // same IP, different port
			}
			pl.writes = sim.DrawWriteSizes(rt, fmt.Sprintf("p%d.", i), mss, 8, 30_000, 20_000)
			if len(pl.writes) == 0 {
				pl.writes = []int{1}
			}
			pl.reconnect = -1
			if rapid.IntRange(0, 3).Draw(rt, "reconnects") == 0 {
				pl.reconnect = rapid.IntRange(1, len(pl.writes)).Draw(rt, "reconnectAfter")
			}
			pl.fs = sim.DrawFateScript(rt, sim.FateOpts{MaxExplicit: 6, MaxRegimes: 2, MaxRegLen: 60, MaxDelay: 200, MaxLossPm: 250})
			plans = append(plans, pl)
		}
		acceptLate := rapid.SampledFrom([]int64{0, 0, 50, 2000}).Draw(rt, "acceptDelayMs")
		// the library's millisecond clock: a young process, one that has been up
		// for minutes or weeks, and the 2^31 / 2^32 wrap points
		clockOff := uint32(0)
		if rapid.IntRange(0, 2).Draw(rt, "clock") > 0 {
			clockOff = rapid.OneOf(rapid.SampledFrom([]uint32{65_000, 70_000, 1 << 20, 1 << 24, 3_000_000_000}), rapid.Custom(func(t *rapid.T) uint32 { return drawOffset(t, "clk", 30_000) })).Draw(rt, "clockOff")
		}
		nForeign := rapid.IntRange(0, 25).Draw(rt, "nForeign")
		foreignEvery := rapid.IntRange(1, 5).Draw(rt, "foreignEvery")
		var foreignPassed, foreignTotal, maxConcurrent, reconnected, staleFlushed int
		inconclusive := false
		rapid.SyncTest(rt, func(rt *rapid.T) {
			s := sim.NewSessSim(clockOff, 11)
			s.DefaultDelay = 5
			laddr := &net.UDPAddr{IP: net.IPv4(10, 0, 0, 1), Port: 29900}
			lconn := s.Net.Listen(laddr)
			blk := func() kcp.BlockCrypt { b, _ := sim.NewBlockCrypt(cipher, key); return b }
			L, _ := kcp.ServeConn(blk(), fec[0], fec[1], lconn)
			var peers []*c11Peer
			var strangers []*kcp.UDPSession // sessions accepted for foreign addresses
			var captured [][]byte           // genuine client->listener datagrams
			var toClient = map[string][][]byte{}
			connect := func(p *c11Peer) {
				p.inc++
				if p.inc == 2 && p.conv != 0 && p.conv%3 == 0 {
					p.conv = 0 // reconnect with conversation id 0
				} else {
					p.conv += uint32(p.inc-1) * 7919
				}
				p.sid = c11Sid(p.addr.String(), p.conv)
				p.cli, _ = kcp.NewConn3(p.conv, laddr, blk(), fec[0], fec[1], p.conn)
				p.cli.SetNoDelay(1, 10, 2, 1)
				p.cli.SetWindowSize(64, 64)
				p.srv, p.accepts, p.recv, p.sent, p.reached = nil, 0, 0, 0, false
				p.openerIn, p.openerChecked = false, false
				p.total = 0
				for _, n := range p.writes[p.wi:] {
					p.total += int64(n)
				}
				if p.reconnectAfter >= 0 && p.inc == 1 {
					p.total = 0
					for _, n := range p.writes[:p.reconnectAfter] {
						p.total += int64(n)
					}
				}
			}
			for i, pl := range plans {
				p := &c11Peer{addr: &net.UDPAddr{IP: net.IPv4(10, 0, 1, byte(pl.host)), Port: pl.port}, conv: pl.conv, writes: pl.writes, reconnectAfter: pl.reconnect}
				p.conn = s.Net.Listen(p.addr)
				s.SetLink(p.addr.String(), laddr.String(), pl.fs, 0)
				s.SetLink(laddr.String(), p.addr.String(), pl.fs, 1)
				connect(p)
				peers = append(peers, p)
				_ = i
			}
			defer func() {
				for _, p := range peers {
					if p.cli != nil {
						p.cli.Close()
					}
					if p.srv != nil {
						p.srv.Close()
					}
					for _, o := range p.closedOld {
						o.Close()
					}
					p.conn.Close()
				}
				for _, x := range strangers {
					x.Close()
				}
				tbl, _ := L.VerifSessions()
				for a := range tbl {
					if x := L.VerifSession(a); x != nil {
						x.Close()
					}
				}
				L.Close()
				lconn.Close()
				s.Drain(30_000)
			}()
			byAddr := func(a string) *c11Peer {
				for _, p := range peers {
					if p.addr.String() == a {
						return p
					}
				}
				return nil
			}
			strangerAddr := &net.UDPAddr{IP: net.IPv4(10, 9, 9, 9), Port: 999}
			dgCount := 0
			// As soon as the listener has been handed a genuine data packet that
			// opens this incarnation's conversation (first segment sn 0) it must
			// own a session for that address and conversation - whatever was
			// there before, whatever the clock says. No timing involved.
			s.OnDeliver = func(to string, from net.Addr, data []byte) {
				p := byAddr(from.String())
				if to != laddr.String() || p == nil || p.openerIn {
					return
				}
				_, pl, err := crypto.Open(data)
				if err != nil {
					return
				}
				fr, err := wire.ParseFrame(pl, fec[0] > 0)
				if err != nil || (fr.HasFEC && fr.Type != wire.TypeData) || len(fr.Segments) == 0 {
					return
				}
				if sg := fr.Segments[0]; sg.Conv == p.conv && sg.Sn == 0 {
					p.openerIn = true
				}
			}
			s.AfterEvent = func() {
				for _, p := range peers {
					if !p.openerIn || p.openerChecked {
						continue
					}
					p.openerChecked = true
					x := L.VerifSession(p.addr.String())
					if x == nil {
						s.Fail("peer %s (incarnation %d): the listener was handed the first data packet of conversation %#x (sn 0) and has no session for that address afterwards", p.addr, p.inc, p.conv)
					} else if x.GetConv() != p.conv {
						s.Fail("peer %s (incarnation %d): the listener was handed the first data packet of conversation %#x (sn 0) but still runs conversation %#x for that address", p.addr, p.inc, p.conv, x.GetConv())
					}
				}
			}
			if os.Getenv("VERIF_TRACE") != "" {
				s.OnDeliver = func(to string, from net.Addr, data []byte) {
					_, pl, err := crypto.Open(data)
					if err != nil {
						fmt.Printf("t=%d DELIVER %s -> %s %d bytes: %v\n", s.Now(), from, to, len(data), err)
						return
					}
					fr, err := wire.ParseFrame(pl, fec[0] > 0)
					desc := fmt.Sprintf("seq=%d type=%#x", fr.SeqID, fr.Type)
					for _, sg := range fr.Segments {
						desc += fmt.Sprintf(" [cmd=%d conv=%#x sn=%d una=%d len=%d]", sg.Cmd, sg.Conv, sg.Sn, sg.Una, len(sg.Data))
					}
					fmt.Printf("t=%d DELIVER %s -> %s %d bytes: %s err=%v\n", s.Now(), from, to, len(data), desc, err)
					for _, p := range peers {
						if p.cli != nil {
							p.cli.VerifWithKCP(func(k *kcp.KCP) {
								st := k.VerifState(true)
								fmt.Printf("      client conv=%#x una=%d nxt=%d sndbuf=%v acked=%v sndq=%d recovered=%d\n", st.Conv, st.SndUna, st.SndNxt, st.SndBufSn, st.SndBufAcked, st.SndQueue, kcp.DefaultSnmp.Copy().FECRecovered)
							})
							fmt.Printf("      client fec %+v\n", p.cli.VerifFEC())
						}
					}
				}
			}
			s.OnSent = func(d *sim.Sent, from, to string, f *sim.Fate) error {
				if to == laddr.String() {
					if p := byAddr(from); p != nil && f.Copies > 0 {
						p.reached = true
					}
					if len(captured) < 64 {
						captured = append(captured, append([]byte(nil), d.Data...))
					}
					dgCount++
				} else if len(toClient[to]) < 8 {
					toClient[to] = append(toClient[to], append([]byte(nil), d.Data...))
				}
				return nil
			}
			injectForeign := func() {
				if len(captured) == 0 {
					return
				}
				foreignTotal++
				raw := captured[rapid.IntRange(0, len(captured)-1).Draw(rt, "cap")]
				switch rapid.IntRange(0, 3).Draw(rt, "foreignKind") {
				case 0: // a replay of some client's datagram from a never-seen address
					s.Inject(laddr.String(), strangerAddr, raw, 0)
					foreignPassed++
				case 1: // random bytes from a stranger or from a known address
					n := rapid.IntRange(0, 200).Draw(rt, "rndLen")
					from := net.Addr(strangerAddr)
					// without a cipher nothing tells random bytes from a genuine packet of that
					// address that starts a new conversation (which may replace the session):
					// spoofing a known address is only "foreign" when the integrity check rejects it
					if rapid.Bool().Draw(rt, "fromKnown") && !crypto.IsNull() {
						from = peers[rapid.IntRange(0, len(peers)-1).Draw(rt, "which")].addr
					}
					s.Inject(laddr.String(), from, rapid.SliceOfN(rapid.Byte(), n, n).Draw(rt, "rnd"), 0)
				case 2: // right address, forged conversation id, sn != 0: must change nothing
					p := peers[rapid.IntRange(0, len(peers)-1).Draw(rt, "victim")]
					if p.srv == nil {
						return
					}
					nonce, plain, err := crypto.Open(raw)
					if err != nil {
						return
					}
					off := 0
					if fec[0] > 0 {
						if len(plain) < 8+24 || binary.LittleEndian.Uint16(plain[4:]) != wire.TypeData {
							return
						}
						off = 8
					}
					if len(plain) < off+24 {
						return
					}
					forged := append([]byte(nil), plain...)
					binary.LittleEndian.PutUint32(forged[off:], p.conv^0x5a5a5a5a)
					if binary.LittleEndian.Uint32(forged[off+12:]) == 0 {
						binary.LittleEndian.PutUint32(forged[off+12:], 5)
					}
					n2 := append([]byte(nil), nonce...)
					if len(n2) > 0 {
						n2[len(n2)-1] ^= 0x55
					}
					s.Quiesce()
					before := p.srv.VerifDigest()
					tblBefore, blBefore := L.VerifSessions()
					L.VerifPacketInput(crypto.Seal(n2, forged), p.addr)
					tbl, bl := L.VerifSessions()
					if p.srv.VerifDigest() != before || !reflect.DeepEqual(tbl, tblBefore) || bl != blBefore {
						s.Fail("a packet from %s with a foreign conversation id and sn != 0 changed the session or the listener's table", p.addr)
					}
					foreignPassed++
				default: // a dialled session ignores datagrams from a third address
					p := peers[rapid.IntRange(0, len(peers)-1).Draw(rt, "victimCli")]
					dgs := toClient[p.addr.String()]
					if len(dgs) == 0 || p.cli == nil {
						return
					}
					s.Quiesce()
					before := p.cli.VerifDigest()
					d0 := s.Delivered
					// the third address: unrelated, the peer's IP with another port, or
					// another IP with the peer's port (a filter that only looks at one of
					// the two lets one of these through)
					third := net.Addr(strangerAddr)
					switch rapid.IntRange(0, 2).Draw(rt, "thirdKind") {
					case 1:
						third = &net.UDPAddr{IP: laddr.IP, Port: laddr.Port + 1}
					case 2:
						third = &net.UDPAddr{IP: net.IPv4(10, 0, 0, 77), Port: laddr.Port}
					}
					s.Inject(p.addr.String(), third, dgs[rapid.IntRange(0, len(dgs)-1).Draw(rt, "srvDg")], 0)
					s.Quiesce()
					for s.NextAt() >= 0 && s.NextAt() <= s.Now() {
						s.Step(s.Now())
						s.Quiesce()
					}
					// only the injected datagram is guaranteed to be from the stranger; genuine ones
					// due at the same instant may have been processed too: compare only if none was
					if p.cli.VerifDigest() != before && s.Delivered-d0 == 1 {
						s.Fail("a dialled session changed state on a datagram from a third address")
					}
					foreignPassed++
				}
			}
			var accept *sim.Call
			acceptFrom := acceptLate
			steps := 0
			// stall detection by progress, not by a fixed time: see coreAllowance in c02_test.go
			var lastSig, lastProgressAt int64
			allowance := func() int64 {
				var maxRto int64 = 200
				look := func(x *kcp.UDPSession) {
					if x == nil {
						return
					}
					x.VerifWithKCP(func(k *kcp.KCP) {
						st := k.VerifState(true)
						maxRto = max(maxRto, int64(st.RxRto))
						for _, r := range st.SndBufRto {
							maxRto = max(maxRto, int64(r))
						}
					})
				}
				for _, p := range peers {
					look(p.cli)
					look(p.srv)
				}
				return 2*(maxRto+60_000) + 360_000
			}
			for s.Err() == nil {
				s.Quiesce()
				issued := false
				// acceptor
				if accept != nil && accept.Done() {
					if accept.Err != nil {
						s.Fail("Accept failed: %v", accept.Err)
						break
					}
					c := accept.Val.(*kcp.UDPSession)
					accept = nil
					ra := c.RemoteAddr().String()
					if p := byAddr(ra); p == nil {
						strangers = append(strangers, c) // a foreign address is a new peer too
					} else if c.GetConv() != p.conv {
						s.Fail("Accept returned a session for %s with conv %#x, the peer at that address talks conv %#x", ra, c.GetConv(), p.conv)
					} else {
						p.accepts++
						if p.accepts > 1 {
							s.Fail("peer %s conv %#x (incarnation %d) was returned by Accept %d times", ra, p.conv, p.inc, p.accepts)
						}
						p.srv = c
						c.SetNoDelay(1, 10, 2, 1)
						c.SetWindowSize(64, 64)
					}
				}
				if accept == nil && s.Now() >= acceptFrom {
					accept = s.Go("Accept", func() (int, error, any) { c, err := L.AcceptKCP(); return 0, err, c })
					issued = true
				}
				conc := 0
				for _, p := range peers {
					// client writer
					if p.wcall != nil && p.wcall.Done() {
						if p.wcall.Err != nil {
							s.Fail("client %s Write failed: %v", p.addr, p.wcall.Err)
							break
						}
						p.sent += int64(p.writes[p.wi])
						p.wi++
						p.wcall = nil
						steps++
						if steps%foreignEvery == 0 && foreignTotal < nForeign {
							injectForeign()
						}
					}
					limit := len(p.writes)
					if p.reconnectAfter >= 0 && p.inc == 1 {
						limit = p.reconnectAfter
					}
					if p.wcall == nil && p.wi < limit {
						n := p.writes[p.wi]
						if cap(p.wbuf) < n {
							p.wbuf = make([]byte, n)
						}
						b := p.wbuf[:n]
						sim.FillPayload(b, p.sid, p.sent)
						cli := p.cli
						p.wcall = s.Go("Write", func() (int, error, any) { n, err := cli.Write(b); return n, err, nil })
						issued = true
					}
					// server-side reader of the accepted session
					if p.rcall != nil && p.rcall.Done() {
						n, err := p.rcall.N, p.rcall.Err
						p.rcall = nil
						if err != nil {
							s.Fail("session accepted for %s conv %#x: Read failed: %v (closed or disturbed by other traffic?)", p.addr, p.conv, err)
							break
						}
						if p.recv+int64(n) > p.sent {
							s.Fail("session accepted for %s conv %#x read %d bytes beyond what its own peer has written", p.addr, p.conv, p.recv+int64(n)-p.sent)
							break
						}
						if i := sim.CheckPayload(p.rbuf[:n], p.sid, p.recv); i >= 0 {
							who := "nobody's stream"
							for _, q := range peers {
								if q != p && sim.CheckPayload(p.rbuf[i:min(n, i+8)], q.sid, p.recv+int64(i)) < 0 {
									who = fmt.Sprintf("the stream of peer %s conv %#x", q.addr, q.conv)
								}
							}
							s.Fail("session accepted for %s conv %#x: byte %d of its stream is not what its peer wrote (it matches %s)", p.addr, p.conv, p.recv+int64(i), who)
							break
						}
						p.recv += int64(n)
					}
					if p.rcall == nil && p.srv != nil && p.recv < p.total {
						if cap(p.rbuf) == 0 {
							p.rbuf = make([]byte, 4096)
						}
						srv, buf := p.srv, p.rbuf
						p.rcall = s.Go("Read", func() (int, error, any) { n, err := srv.Read(buf); return n, err, nil })
						issued = true
					}
					if p.srv != nil && p.recv < p.total {
						conc++
					}
					// reconnect from the same address with a new conversation once the first one is done
					if p.reconnectAfter >= 0 && p.inc == 1 && p.wi == p.reconnectAfter && p.wcall == nil && p.recv == p.total && p.srv != nil {
						p.cli.Close()
						p.closedOld = append(p.closedOld, p.srv) // the listener closes it when the new conversation starts
						s.SleepTo(s.Now() + 500)                 // let stale datagrams of the old conversation die out
						if fec[0] > 0 && hx.IsKnown(c11KeyStaleFEC) {
							// listed finding: FEC packets carry no conversation id; whatever of the old
							// conversation is still queued at the socket would enter the new session's
							// decoder. The class is left out by emptying the socket.
							if p.conn.Flush() > 0 {
								staleFlushed++
							}
						}
						connect(p)
						reconnected++
						issued = true
					}
				}
				maxConcurrent = max(maxConcurrent, conc)
				if issued {
					continue
				}
				done := true
				for _, p := range peers {
					limit := len(p.writes)
					if p.wi < limit || p.recv < p.total || (p.reconnectAfter >= 0 && p.inc == 1) {
						done = false
					}
				}
				if done {
					break
				}
				var sig int64
				for _, p := range peers {
					sig += p.recv*31 + p.sent*17 + int64(p.accepts)*7 + int64(p.inc)*3 + int64(p.wi)
					for _, x := range []*kcp.UDPSession{p.cli, p.srv} {
						if x != nil {
							x.VerifWithKCP(func(k *kcp.KCP) { st := k.VerifState(false); sig += int64(st.SndUna)*5 + int64(st.RcvNxt)*11 })
						}
					}
				}
				if !s.ScriptsDone() {
					// the premise "faults over" is not met while a fault script still has
					// datagrams to decide on (probe back-off can stretch it over hours)
					if s.Now() > 6*3600_000 {
						inconclusive = true
						break
					}
					lastProgressAt = s.Now()
				}
				if sig != lastSig {
					lastSig, lastProgressAt = sig, s.Now()
				} else if s.Now()-lastProgressAt > allowance() {
					break // nothing has moved for longer than any retransmission timer in force: stalled
				}
				if !s.Step(s.Now() + 3600_000) {
					break
				}
			}
			if s.Err() == nil && !inconclusive {
				for _, p := range peers {
					if p.reached && p.accepts != 1 {
						s.Fail("peer %s conv %#x (incarnation %d): datagrams reached the listener but Accept returned it %d times", p.addr, p.conv, p.inc, p.accepts)
					}
					if p.recv < p.total {
						var cs, ss kcp.VerifKCPState
						p.cli.VerifWithKCP(func(k *kcp.KCP) { cs = k.VerifState(true) })
						if p.srv != nil {
							p.srv.VerifWithKCP(func(k *kcp.KCP) { ss = k.VerifState(true) })
						}
						s.Fail("session of peer %s conv %#x stalled: %d of %d bytes read, nothing has moved on any session since %d ms (now %d ms); writes done %d/%d, write blocked=%v, reader blocked=%v\nclient core %+v\nserver core %+v fec %+v", p.addr, p.conv, p.recv, p.total, lastProgressAt, s.Now(), p.wi, len(p.writes), p.wcall != nil, p.rcall != nil, cs, ss, p.srv.VerifFEC())
					}
				}
			}
			if err := s.Err(); err != nil {
				rt.Fatalf("C11: %v\n%d peers, cipher %s, fec %v", err, npeers, cipher, fec)
			}
		})
		cl := []string{"isolation_cases", "cipher_" + cipher, fmt.Sprintf("peers_%d", npeers)}
		if maxConcurrent >= 3 {
			cl = append(cl, "ge3_concurrent_streams")
		}
		if foreignPassed > 0 {
			cl = append(cl, "foreign_datagram_past_integrity")
		}
		if reconnected > 0 {
			cl = append(cl, "reconnect_same_address_new_conv")
		}
		if fec[0] > 0 {
			cl = append(cl, "fec_on")
		}
		if clockOff >= 65536 {
			cl = append(cl, "clock_beyond_16_bits")
			if reconnected > 0 && fec[0] > 0 {
				cl = append(cl, "fec_reconnect_with_clock_beyond_16_bits")
			}
		}
		if inconclusive {
			rec.Class("script_unfinished_inconclusive", 1)
		}
		for i := 0; i < staleFlushed; i++ {
			rec.Exclude(c11KeyStaleFEC)
		}
		rec.Add("n_foreign_injected", int64(foreignTotal))
		rec.Case(hx.Hash64(cipher, fec, plans, acceptLate, nForeign, foreignEvery, clockOff), maxConcurrent >= 3 && foreignPassed > 0, cl...)
		if rec.WantSample() {
			var w [][]int
			for _, p := range plans {
				w = append(w, p.writes)
			}
			rec.Sample(map[string]any{"cipher": cipher, "fec": fec, "peers": npeers, "writes": w, "foreign_injected": foreignTotal, "accept_delay_ms": acceptLate, "reconnected": reconnected})
		}
	})
}

const c11KeyStaleFEC = "C11:stale-fec-packets-of-previous-conversation-enter-new-session"

// TestC11KnownStaleFEC is the reproducer of the listed finding c11KeyStaleFEC:
// datagrams of a previous conversation that are still queued at the socket
// when a new session (new conversation id) starts on it are taken into the new
// session's FEC decoder - FEC packets carry no conversation id.
func TestC11KnownStaleFEC(t *testing.T) {
	rec := hx.NewRecorder(t)
	buffered := 0
	bubble(t, func() {
		s := sim.NewSessSim(0, 11)
		s.DefaultDelay = 1
		laddr := &net.UDPAddr{IP: net.IPv4(10, 0, 0, 1), Port: 1}
		caddr := &net.UDPAddr{IP: net.IPv4(10, 0, 0, 2), Port: 2}
		lconn, cconn := s.Net.Listen(laddr), s.Net.Listen(caddr)
		srv1, _ := kcp.NewConn3(100, caddr, nil, 3, 2, lconn)
		srv1.SetNoDelay(1, 10, 2, 1)
		cli1, _ := kcp.NewConn3(100, laddr, nil, 3, 2, cconn)
		cli1.Close() // the first client conversation is over; its socket stays
		s.SleepTo(5)
		srv1.Write([]byte("late data of conversation 100")) // two datagrams of group 0 ...
		srv1.Write([]byte("more late data"))
		srv1.Write([]byte("and more")) // (the closed session's read loop swallows the first datagram on its way out)
		s.SleepTo(20)                  // ... now waiting in the client socket's receive queue
		cli2, _ := kcp.NewConn3(200, laddr, nil, 3, 2, cconn)
		s.SleepTo(40)
		buffered = cli2.VerifFEC().ShardPackets
		cli2.Close()
		srv1.Close()
		lconn.Close()
		cconn.Close()
		s.Drain(2000)
	})
	rec.Case(1, true, "reproducer")
	rec.Case(2, true, "reproducer")
	if buffered > 0 {
		rec.Finding(c11KeyStaleFEC, fmt.Sprintf("a session started for conversation 200 holds %d FEC packet(s) of conversation 100 in its decoder (left in the socket's receive queue); together with one genuine packet of the same group they are Reed-Solomon 'reconstructed' into a packet that is fed to the core", buffered))
	}
}

// TestC11Backlog: more new peers than the accept backlog holds (128). Peers
// beyond the backlog are not lost: once Accept makes room their
// retransmissions create their sessions; every peer is accepted exactly once,
// with its own address and conversation, and delivers its own bytes.
func TestC11Backlog(t *testing.T) {
	rec := hx.NewRecorder(t)
	rapid.Check(t, func(rt *rapid.T) {
		npeers := rapid.IntRange(120, 150).Draw(rt, "npeers")
		acceptAfter := int64(rapid.SampledFrom([]int{50, 400, 3000}).Draw(rt, "acceptAfterMs"))
		fec := rapid.SampledFrom([][2]int{{0, 0}, {2, 1}}).Draw(rt, "fec")
		overflowed := false
		rapid.SyncTest(rt, func(rt *rapid.T) {
			s := sim.NewSessSim(0, 5)
			s.DefaultDelay = 3
			laddr := &net.UDPAddr{IP: net.IPv4(10, 0, 0, 1), Port: 29900}
			lconn := s.Net.Listen(laddr)
			L, _ := kcp.ServeConn(nil, fec[0], fec[1], lconn)
			type peer struct {
				addr *net.UDPAddr
				conn *sim.PConn
				cli  *kcp.UDPSession
				conv uint32
			}
			var peers []*peer
			var accepted []*kcp.UDPSession
			// one peer is connected and accepted BEFORE the flood: its session must keep
			// working while the backlog is full of others
			eaddr := &net.UDPAddr{IP: net.IPv4(10, 2, 0, 1), Port: 2000}
			econn := s.Net.Listen(eaddr)
			ecli, _ := kcp.NewConn3(6999, laddr, nil, fec[0], fec[1], econn)
			ecli.SetNoDelay(1, 20, 2, 1)
			ecli.Write([]byte("E1"))
			eacc := s.Go("Accept", func() (int, error, any) { x, err := L.AcceptKCP(); return 0, err, x })
			s.SleepTo(40)
			if !eacc.Done() || eacc.Err != nil {
				rt.Fatalf("harness: first peer not accepted")
			}
			esrv := eacc.Val.(*kcp.UDPSession)
			defer func() { ecli.Close(); esrv.Close(); econn.Close() }()
			ebuf := make([]byte, 64)
			if n, err := esrv.Read(ebuf); err != nil || string(ebuf[:n]) != "E1" {
				rt.Fatalf("harness: established session read %q %v", ebuf[:n], err)
			}
			defer func() {
				for _, p := range peers {
					p.cli.Close()
					p.conn.Close()
				}
				for _, x := range accepted {
					x.Close()
				}
				tbl, _ := L.VerifSessions()
				for a := range tbl {
					if x := L.VerifSession(a); x != nil {
						x.Close()
					}
				}
				L.Close()
				lconn.Close()
				s.Drain(20_000)
			}()
			for i := 0; i < npeers; i++ {
				p := &peer{addr: &net.UDPAddr{IP: net.IPv4(10, 1, byte(i/200), byte(1+i%200)), Port: 3000 + i}, conv: uint32(7000 + i)}
				p.conn = s.Net.Listen(p.addr)
				p.cli, _ = kcp.NewConn3(p.conv, laddr, nil, fec[0], fec[1], p.conn)
				p.cli.SetNoDelay(1, 20, 2, 1)
				p.cli.Write([]byte{byte(i), byte(i >> 8), 0x5a})
				peers = append(peers, p)
			}
			s.SleepTo(40 + acceptAfter)
			tbl, backlog := L.VerifSessions()
			if backlog > 128 || len(tbl) > 129 {
				rt.Fatalf("C11: %d sessions in the table, %d in the accept backlog (limit 128)", len(tbl), backlog)
			}
			// the established session is not disturbed by the crowd at the door
			ecli.Write([]byte("E2-while-the-backlog-is-full"))
			erd := s.Go("Read", func() (int, error, any) {
				esrv.SetReadDeadline(s.Start.Add(time.Duration(s.Now()+5000) * time.Millisecond))
				n, err := esrv.Read(ebuf)
				return n, err, nil
			})
			s.SleepTo(s.Now() + 5100)
			if !erd.Done() || erd.Err != nil || string(ebuf[:erd.N]) != "E2-while-the-backlog-is-full" {
				rt.Fatalf("C11: an established, accepted session stalled while %d other peers wait in the accept backlog (read n=%d err=%v)", backlog, erd.N, erd.Err)
			}
			if npeers > 128 {
				overflowed = backlog == 128
			}
			// now the application accepts: every peer must come out exactly once
			seen := map[string]int{}
			deadline := s.Now() + 120_000
			for len(seen) < npeers && s.Now() < deadline {
				L.SetReadDeadline(s.Start.Add(time.Duration(s.Now()+50) * time.Millisecond))
				c := s.Go("Accept", func() (int, error, any) { x, err := L.AcceptKCP(); return 0, err, x })
				s.SleepTo(s.Now() + 60)
				if !c.Done() {
					rt.Fatalf("C11: Accept with a deadline did not return")
				}
				if c.Err != nil {
					continue
				}
				x := c.Val.(*kcp.UDPSession)
				accepted = append(accepted, x)
				key := fmt.Sprintf("%s/%d", x.RemoteAddr(), x.GetConv())
				seen[key]++
				if seen[key] > 1 {
					rt.Fatalf("C11: peer %s returned by Accept %d times", key, seen[key])
				}
			}
			for i, p := range peers {
				if seen[fmt.Sprintf("%s/%d", p.addr, p.conv)] != 1 {
					rt.Fatalf("C11: peer no. %d (%s conv %d) of %d was never accepted although it keeps retransmitting and the backlog has room (accepted %d)", i, p.addr, p.conv, npeers, len(seen))
				}
			}
			// every accepted session holds exactly its own peer's three bytes
			for _, x := range accepted {
				buf := make([]byte, 16)
				x.SetReadDeadline(s.Start.Add(time.Duration(s.Now()+500) * time.Millisecond))
				c := s.Go("Read", func() (int, error, any) { n, err := x.Read(buf); return n, err, nil })
				s.SleepTo(s.Now() + 600)
				idx := int(x.GetConv()) - 7000
				if !c.Done() || c.Err != nil || c.N != 3 || buf[0] != byte(idx) || buf[1] != byte(idx>>8) || buf[2] != 0x5a {
					rt.Fatalf("C11: session accepted for conv %d read n=%d err=%v bytes %x, want its own peer's 3 bytes", x.GetConv(), c.N, c.Err, buf[:3])
				}
			}
		})
		cl := []string{"backlog_cases"}
		if overflowed {
			cl = append(cl, "backlog_full_128")
		}
		rec.Case(hx.Hash64(npeers, acceptAfter, fec), overflowed, cl...)
		if rec.WantSample() {
			rec.Sample(map[string]any{"peers": npeers, "accept_after_ms": acceptAfter, "fec": fec})
		}
	})
}
