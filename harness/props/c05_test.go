package props

// C05: no datagram content arriving at any point can make the process panic,
// allocate without bound or exceed C04's buffering limits - for the raw core's
// Input, the FEC decoder, the dialled-session and the listener receive paths.

import (
	"encoding/binary"
	"fmt"
	"net"
	"testing"

	kcp "github.com/xtaci/kcp-go/v5"
	"pgregory.net/rapid"
	"verif/harness/hx"
	"verif/harness/sim"
	"verif/harness/wire"
)

// mutate applies a drawn structural mutation to a datagram.
func mutate(t *rapid.T, b []byte, maxLen int) []byte {
	b = append([]byte(nil), b...)
	for k := rapid.IntRange(1, 3).Draw(t, "nmut"); k > 0; k-- {
		switch rapid.IntRange(0, 8).Draw(t, "mut") {
		case 0: // truncate
			if len(b) > 0 {
				b = b[:rapid.IntRange(0, len(b)-1).Draw(t, "cut")]
			}
		case 1: // truncate at a header boundary +-1
			cut := rapid.SampledFrom([]int{0, 1, 5, 6, 7, 8, 9, 19, 20, 21, 23, 24, 25, 31, 32, 33, 47, 48, 49}).Draw(t, "hcut")
			if cut < len(b) {
				b = b[:cut]
			}
		case 2: // extend
			ext := rapid.SampledFrom([]int{1, 23, 24, 25, 100, 1500}).Draw(t, "ext")
			for i := 0; i < ext && len(b) < maxLen; i++ {
				b = append(b, byte(rapid.IntRange(0, 255).Draw(t, "extb")))
			}
		case 3: // overwrite a 32-bit field with a boundary constant
			if len(b) >= 4 {
				off := rapid.IntRange(0, len(b)-4).Draw(t, "off32")
				if rapid.Bool().Draw(t, "aligned") {
					off = off / 4 * 4
				}
				v := rapid.SampledFrom([]uint32{0, 1, 24, 1376, 1400, 1476, 1477, 1500, 1501, 0x7fffffff, 0x80000000, 0xffffffff, 0xfffffff0, 65535, 65536}).Draw(t, "v32")
				binary.LittleEndian.PutUint32(b[off:], v)
			}
		case 4: // overwrite a byte
			if len(b) > 0 {
				b[rapid.IntRange(0, len(b)-1).Draw(t, "off8")] = byte(rapid.SampledFrom([]int{0, 1, 80, 81, 82, 83, 84, 85, 0xf1, 0xf2, 0xf3, 0xff}).Draw(t, "v8"))
			}
		case 5: // flip a bit
			if len(b) > 0 {
				b[rapid.IntRange(0, len(b)-1).Draw(t, "bitoff")] ^= 1 << uint(rapid.IntRange(0, 7).Draw(t, "bit"))
			}
		case 6: // splice: duplicate a prefix behind the datagram
			if len(b) > 0 {
				n := rapid.IntRange(1, len(b)).Draw(t, "splice")
				if len(b)+n <= maxLen {
					b = append(b, b[:n]...)
				}
			}
		case 7: // random bytes
			n := rapid.IntRange(0, min(maxLen, 1600)).Draw(t, "rndlen")
			b = rapid.SliceOfN(rapid.Byte(), n, n).Draw(t, "rnd")
		case 8: // 16-bit field
			if len(b) >= 2 {
				off := rapid.IntRange(0, len(b)-2).Draw(t, "off16")
				binary.LittleEndian.PutUint16(b[off:], uint16(rapid.SampledFrom([]int{0, 1, 2, 3, 1498, 1499, 1500, 1501, 0xf1, 0xf2, 0xf3, 65535}).Draw(t, "v16")))
			}
		}
	}
	if len(b) > maxLen {
		b = b[:maxLen]
	}
	return b
}

func TestC05Core(t *testing.T) {
	rec := hx.NewRecorder(t)
	rapid.Check(t, propC05CoreWith(rec))
}

// propC05CoreWith is the property; rec may be nil (fuzzing).
func propC05CoreWith(rec *hx.Recorder) func(*rapid.T) {
	return func(rt *rapid.T) {
		cfg := drawHostileCfg(rt)
		cfg.MaxData = rapid.SampledFrom([]int{1400, 1476, 1500, 1501, 3000, 9000, 60000}).Draw(rt, "maxData")
		nops := rapid.IntRange(1, 80).Draw(rt, "nops")
		passed, total := 0, 0
		var obs hostileObs
		rapid.SyncTest(rt, func(rt *rapid.T) {
			h := newHostileRun(cfg)
			h.noAdmission = true
			for i := 0; i < nops && h.err == nil; i++ {
				if rapid.IntRange(0, 2).Draw(rt, "hostile") == 0 {
					// a forged but well-formed datagram, then mutated
					var raw []byte
					for _, sg := range h.drawForgedDatagram(rt) {
						raw = sg.Append(raw)
					}
					raw = mutate(rt, raw, 65536)
					total++
					if len(raw) >= 24 && binary.LittleEndian.Uint32(raw) == cfg.Conv {
						passed++
					}
					// what Input does with garbage is unspecified except: no panic, limits hold
					h.ackBytes += len(raw)
					h.k.Input(raw, kcp.PacketType(rapid.IntRange(0, 1).Draw(rt, "pktType")), rapid.Bool().Draw(rt, "ackNoDelay"))
					// pending acks are bounded by what arrived since the list was last empty
					if st := h.k.VerifState(false); st.AckList > int(st.Mtu)/24+h.ackBytes/24+1 {
						h.fail("ack list holds %d entries, %d bytes arrived since it was last empty (mtu %d)", st.AckList, h.ackBytes, st.Mtu)
					}
					h.done("Input(mutated)")
				} else {
					h.step(rt)
				}
			}
			obs = h.obs
			if h.err != nil {
				rt.Fatalf("C05 (raw core): %v\nconfig: %+v", h.err, cfg)
			}
		})
		cl := []string{"core_cases"}
		if passed > 0 {
			cl = append(cl, "mutant_passed_conv_check")
		}
		rec.Add("n_hostile_inputs", int64(total))
		rec.Add("n_hostile_inputs_past_first_validation", int64(passed))
		rec.Case(hx.Hash64(cfg, nops, obs, total, passed), passed > 0, cl...)
		if rec.WantSample() {
			rec.Sample(map[string]any{"cfg": cfg, "nops": nops, "hostile_inputs": total, "passed_conv_check": passed})
		}
	}
}

var propC05Core = propC05CoreWith(nil)

func TestC05FECDecoder(t *testing.T) {
	rec := hx.NewRecorder(t)
	rapid.Check(t, propC05FECDecoderWith(rec))
}

// propC05FECDecoderWith is the property; rec may be nil (fuzzing).
func propC05FECDecoderWith(rec *hx.Recorder) func(*rapid.T) {
	return func(rt *rapid.T) {
		d, p := drawRatio(rt, "r.", false)
		dec := kcp.VerifNewFECDecoder(d, p)
		n := d + p
		st := newFECStream(d, p, rapid.SampledFrom([]uint32{0, 0, pawsOf(n) - uint32(2*n), 1 << 31}).Draw(rt, "start")/uint32(n)*uint32(n), 5)
		var genuine []fecPkt
		for g := 0; g < 3; g++ {
			genuine = append(genuine, st.group([]int{60, 200, 24}, false)...)
		}
		steps := rapid.IntRange(1, 120).Draw(rt, "steps")
		recognised := 0
		for i := 0; i < steps; i++ {
			var pkt []byte
			if rapid.Bool().Draw(rt, "genuine") {
				pkt = genuine[rapid.IntRange(0, len(genuine)-1).Draw(rt, "which")].Raw
			} else {
				base := genuine[rapid.IntRange(0, len(genuine)-1).Draw(rt, "whichm")].Raw
				pkt = mutate(rt, base, 1500)
				// callers only hand packets of at least header+size bytes to the decoder
				for len(pkt) < 8 {
					pkt = append(pkt, 0)
				}
				if rapid.Bool().Draw(rt, "keepType") {
					binary.LittleEndian.PutUint16(pkt[4:], uint16(rapid.SampledFrom([]int{0xf1, 0xf2}).Draw(rt, "type")))
				}
			}
			if ty := binary.LittleEndian.Uint16(pkt[4:]); ty == 0xf1 || ty == 0xf2 {
				recognised++
			}
			out := dec.Decode(append([]byte(nil), pkt...))
			for _, r := range out {
				if cap(r) > 1500 || len(r) > 1500 {
					rt.Fatalf("C05 (FEC decoder): recovered buffer of %d bytes (cap %d)", len(r), cap(r))
				}
			}
			dec.Release(out)
			s := dec.State()
			if s.ShardSets > 5 {
				rt.Fatalf("C05 (FEC decoder): %d shard sets held (limit: the few most recent groups)", s.ShardSets)
			}
			if s.ShardPackets > 5*(s.DecData+s.DecParity) {
				rt.Fatalf("C05 (FEC decoder): %d packets buffered for a %d/%d ratio", s.ShardPackets, s.DecData, s.DecParity)
			}
		}
		rec.Case(hx.Hash64(d, p, steps, recognised), recognised*2 >= steps, "fec_decoder_cases")
		if rec.WantSample() {
			rec.Sample(map[string]any{"ratio": []int{d, p}, "packets": steps, "recognised_as_fec": recognised})
		}
	}
}

var propC05FECDecoder = propC05FECDecoderWith(nil)

// sessionLimits checks C04's occupancy limits and the FEC decoder's on a session.
func sessionLimits(s *kcp.UDPSession) error {
	var err error
	s.VerifWithKCP(func(k *kcp.KCP) { err = windowInvariants(k) })
	if err != nil {
		return err
	}
	f := s.VerifFEC()
	if f.HasDecoder {
		if f.ShardSets > 5 {
			return fmt.Errorf("FEC decoder holds %d shard sets", f.ShardSets)
		}
		if f.ShardPackets > 5*(f.DecData+f.DecParity) {
			return fmt.Errorf("FEC decoder buffers %d packets for ratio %d/%d", f.ShardPackets, f.DecData, f.DecParity)
		}
	}
	return nil
}

func TestC05Session(t *testing.T) {
	rec := hx.NewRecorder(t)
	rapid.Check(t, func(rt *rapid.T) {
		cfg := drawPairCfg(rt, pairGenOpts{})
		// receive windows are tuned before traffic in this check (C04's precondition)
		cfg.Listener = rapid.Bool().Draw(rt, "listener")
		if cfg.Listener {
			cfg.Opts[1].RcvWnd = max(cfg.Opts[1].RcvWnd, 32)
		}
		fs := sim.DrawFateScript(rt, sim.FateOpts{MaxExplicit: 6, MaxRegimes: 2, MaxRegLen: 60, MaxDelay: 300, MaxLossPm: 200})
		app := drawSessApps(rt, pairMSS(cfg), 12, 40_000)
		forge := rapid.Bool().Draw(rt, "forgePastIntegrity") // build hostile plaintext and seal it correctly
		nInj := rapid.IntRange(1, 40).Draw(rt, "ninj")
		passed, total := 0, 0
		oversized := 0
		rapid.SyncTest(rt, func(rt *rapid.T) {
			s := sim.NewSessSim(cfg.ClockOff, cfg.EntropySeed)
			p, err := sim.NewPair(s, cfg, app)
			if err != nil {
				rt.Fatalf("setup: %v", err)
			}
			defer func() {
				// sessions the listener created for forged conversations or for
				// strangers were never handed to the application: close them here
				// (whether the library would release them is C15's subject)
				if p.L != nil {
					tbl, _ := p.L.VerifSessions()
					for a := range tbl {
						if x := p.L.VerifSession(a); x != nil && x != p.Sess[1] {
							x.Close()
						}
					}
				}
				p.Finish(nil)
			}()
			setPairLinks(s, p, fs)
			oobSeen := 0
			if cfg.FEC[0][0] > 0 {
				// an out-of-band handler makes the OOB demultiplexing path live
				p.Sess[0].SetOOBHandler(func(b []byte) { oobSeen += len(b) })
			}
			var captured [2][][]byte // datagrams sent towards end e
			s.OnDeliver = func(to string, from net.Addr, data []byte) {
				e := 0
				if to == p.Addr[1].String() {
					e = 1
				}
				if len(captured[e]) < 64 {
					captured[e] = append(captured[e], append([]byte(nil), data...))
				}
			}
			strangers := []net.Addr{&net.UDPAddr{IP: net.IPv4(10, 9, 9, 9), Port: 9}, sim.StrAddr("stranger:1")}
			inject := func() {
				e := rapid.IntRange(0, 1).Draw(rt, "target")
				if p.Sess[e] == nil && !(e == 1 && p.L != nil) {
					return
				}
				var raw []byte
				if len(captured[e]) > 0 && rapid.IntRange(0, 4).Draw(rt, "fromCapture") > 0 {
					raw = captured[e][rapid.IntRange(0, len(captured[e])-1).Draw(rt, "cap")]
				}
				if forge && rapid.IntRange(0, 2).Draw(rt, "fecShaped") == 0 {
					// a hostile packet in FEC framing, sealed correctly: sequence id near the
					// stream's / at the edges, any type, a lying size field, crafted payload
					var seq uint32
					switch rapid.IntRange(0, 3).Draw(rt, "fseq") {
					case 0:
						seq = uint32(rapid.IntRange(0, 40).Draw(rt, "fseqLow"))
					case 1:
						seq = rapid.SampledFrom([]uint32{0x7fffffff, 0x80000000, 0xfffffffe, 0xffffffff, 0xfffffff0}).Draw(rt, "fseqEdge")
					default:
						seq = rapid.Uint32().Draw(rt, "fseqAny")
					}
					typ := uint16(rapid.SampledFrom([]int{0xf1, 0xf1, 0xf2, 0xf2, 0xf3, 0xf0, 0xf4}).Draw(rt, "ftype"))
					n := rapid.SampledFrom([]int{0, 1, 2, 4, 6, 22, 24, 26, 60, 1400}).Draw(rt, "flen")
					rest := make([]byte, n)
					switch rapid.IntRange(0, 2).Draw(rt, "ffill") {
					case 1:
						for i := range rest {
							rest[i] = byte(rapid.IntRange(0, 255).Draw(rt, "fb"))
							if i > 40 {
								break
							}
						}
					case 2:
						if n >= 2+24 {
							sg := wire.Segment{Conv: cfg.Conv, Cmd: wire.CmdPush, Sn: uint32(rapid.IntRange(0, 50).Draw(rt, "fsn")), Wnd: 32, Data: make([]byte, n-2-24)}
							copy(rest[2:], sg.Append(nil))
						}
					}
					if n >= 2 {
						binary.LittleEndian.PutUint16(rest, uint16(rapid.SampledFrom([]int{0, 1, 2, 3, n - 1, n, n + 1, 1500, 65535}).Draw(rt, "fsize")))
					}
					nn := make([]byte, 16)
					nn[0] = byte(total + 1)
					raw = p.Crypto.Seal(nn, wire.BuildFECRaw(seq, typ, rest))
					passed++
				} else if forge && raw != nil {
					// open the genuine datagram, mutate the plaintext, seal it again
					if nonce, plain, err := p.Crypto.Open(raw); err == nil {
						m := mutate(rt, plain, 1500-p.Crypto.HeaderSize()-p.Crypto.TagSize())
						n2 := append([]byte(nil), nonce...)
						if len(n2) > 0 {
							n2[0] ^= byte(total + 1)
						}
						raw = p.Crypto.Seal(n2, m)
						passed++
					}
				} else {
					raw = mutate(rt, raw, 1500)
					if p.Crypto.IsNull() {
						passed++
					}
				}
				total++
				buf := append([]byte(nil), raw...)
				if rapid.IntRange(0, 3).Draw(rt, "viaSocket") == 0 {
					// through the socket and the library's own read loop, as large as
					// a UDP datagram can be: how much of it the library looks at is
					// bounded by its read buffer, and everything behind that buffer
					// relies on the bound
					big := rapid.SampledFrom([]int{0, 0, 1501, 1600, 4000, 65000}).Draw(rt, "oversize")
					if big > 0 {
						typ := uint16(rapid.SampledFrom([]int{0xf1, 0xf2, 0xf3, 0x51}).Draw(rt, "otype"))
						seq := uint32(rapid.IntRange(0, 40).Draw(rt, "oseq"))
						rest := make([]byte, big)
						binary.LittleEndian.PutUint16(rest, uint16(rapid.SampledFrom([]int{2, 26, 1400, big, 65535}).Draw(rt, "osize")))
						nn := make([]byte, 16)
						nn[0], nn[1] = byte(total+1), 0xB1
						if p.Crypto.IsNull() || forge { // sealed only where authentic hostile input is part of the case
							buf = p.Crypto.Seal(nn, wire.BuildFECRaw(seq, typ, rest))
						} else {
							buf = wire.BuildFECRaw(seq, typ, rest)
						}
						oversized++
					}
					s.Net.Deliver(p.Addr[e].String(), p.Addr[1-e], buf)
					s.Quiesce()
				} else if e == 1 && p.L != nil {
					from := p.Addr[0]
					if rapid.IntRange(0, 3).Draw(rt, "stranger") == 0 {
						from = strangers[rapid.IntRange(0, 1).Draw(rt, "who")]
					}
					p.L.VerifPacketInput(buf, from)
					tbl, _ := p.L.VerifSessions()
					if len(tbl) > 1+len(strangers) {
						s.Fail("listener holds %d sessions, datagrams came from %d addresses", len(tbl), 1+len(strangers))
					}
				} else {
					p.Sess[e].VerifPacketInput(buf)
				}
				for x := 0; x < 2; x++ {
					if p.Sess[x] != nil {
						if err := sessionLimits(p.Sess[x]); err != nil {
							s.Fail("after hostile datagram no. %d (%d bytes) at end %d: end %d: %v", total, len(raw), e, x, err)
						}
					}
				}
			}
			// injections happen at drawn points of the traffic history
			reads := 0
			every := rapid.IntRange(1, 6).Draw(rt, "every")
			p.OnRead = func(r, n int, err error) {
				reads++
				if reads%every == 0 && total < nInj {
					inject()
				}
			}
			for i := 0; i < 3 && total < nInj; i++ {
				inject() // also before any traffic
			}
			horizon := fs.EndTime() + 300_000
			err = p.Run(horizon, false)
			for total < nInj && err == nil {
				inject()
				s.Quiesce()
				err = s.Err()
			}
			// hostile input that fails the integrity check (or never matched the
			// conversation) must not keep the genuine stream from arriving intact;
			// forged-but-authentic input may legitimately disturb it
			if err != nil && (forge || p.Crypto.IsNull()) && !isCrashOrLimit(err) {
				err = nil
			}
			if err != nil {
				rt.Fatalf("C05 (session): %v\ncase: %+v", err, describePair(cfg, fs, app))
			}
		})
		cl := []string{"cipher_" + cfg.Cipher}
		if forge {
			cl = append(cl, "forged_past_integrity")
		}
		if cfg.Listener {
			cl = append(cl, "listener_path")
		}
		if cfg.FEC[0][0] > 0 {
			cl = append(cl, "fec_on")
		}
		if oversized > 0 {
			cl = append(cl, "datagram_larger_than_1500_through_the_socket")
		}
		rec.Add("n_hostile_inputs", int64(total))
		rec.Add("n_hostile_inputs_past_first_validation", int64(passed))
		rec.Case(hx.Hash64(describePair(cfg, fs, app), forge, nInj), passed > 0, cl...)
		if rec.WantSample() {
			d := describePair(cfg, fs, app)
			d["hostile_datagrams"] = total
			d["past_integrity_gate"] = passed
			rec.Sample(d)
		}
	})
}

func isCrashOrLimit(err error) bool {
	s := err.Error()
	for _, k := range []string{"window is", "holds", "buffers", "shard sets", "outside", "twice", "outstanding"} {
		if containsStr(s, k) {
			return true
		}
	}
	return false
}

func containsStr(s, sub string) bool {
	for i := 0; i+len(sub) <= len(s); i++ {
		if s[i:i+len(sub)] == sub {
			return true
		}
	}
	return false
}

var _ = wire.CmdPush
