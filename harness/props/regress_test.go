package props

// Literal regression cases for the defects the checks found in the original
// tree and that were repaired by fix: commits (DESIGN.md 9.2). Each scenario is
// written out in full - no generator is involved - so it keeps testing the
// same thing when the generators change. (A saved rapid bit stream silently
// turns into another case as soon as a generator gains or loses a draw; that
// is what the regression tier consisted of before, and it had quietly stopped
// protecting anything.) The configurations and fault scripts are the shrunk
// cases rapid reported when the defects were found.

import (
	"fmt"
	"net"
	"strings"
	"testing"
	"time"

	kcp "github.com/xtaci/kcp-go/v5"
	"verif/harness/hx"
	"verif/harness/sim"
	"verif/harness/wire"
)

// parseFates reads the notation FateScript.Describe prints: "drop" or
// "x<copies>@<delay>,<delay>,".
func parseFates(s string) []sim.Fate {
	var out []sim.Fate
	for _, tok := range strings.Fields(s) {
		if tok == "drop" {
			out = append(out, sim.Fate{})
			continue
		}
		var f sim.Fate
		var rest string
		if _, err := fmt.Sscanf(tok, "x%d@%s", &f.Copies, &rest); err != nil {
			panic("bad fate " + tok)
		}
		for i, d := range strings.Split(strings.TrimSuffix(rest, ","), ",") {
			var v int
			fmt.Sscanf(d, "%d", &v)
			f.Delay[i] = int32(v)
		}
		out = append(out, f)
	}
	return out
}

func regressed(t *testing.T, rec *hx.Recorder, label string) {
	rec.Case(hx.Hash64(label, 1), true, "literal_regression_case")
	rec.Case(hx.Hash64(label, 2), true, "literal_regression_case")
	rec.Sample(map[string]any{"regression": label})
}

// F2 (fix 5c0c30f): every outstanding segment is acknowledged individually
// while the datagram that carries the new `una` is lost; snd_una must advance
// all the same, or the window stays shut with nothing left to retransmit.
func TestC02RegressAckedHeadWedge(t *testing.T) {
	rec := hx.NewRecorder(t)
	cfg := sim.CoreCfg{
		EP: [2]sim.EPConfig{
			{SndWnd: 16, RcvWnd: 1, NoDelay: 0, Interval: 10, Resend: 0, NC: 1, WriteFlush: true},
			{SndWnd: 32, RcvWnd: 8, NoDelay: 0, Interval: 100, Resend: 5, NC: 1, AckNoDelay: true, Drive: 1},
		},
	}
	fs := &sim.FateScript{Seed: 2, Outages: []sim.Outage{{From: 45, To: 545, Mask: 2}, {From: 2, To: 2002, Mask: 1}}}
	fs.Explicit[1] = parseFates("x2@60,2000,")
	app := [2]sim.AppScript{{Writes: []int{1, 1377, 1375, 1, 1376, 9351, 1, 1375, 1377, 1}, ReadBufs: []int{1}}, {}}
	bubble(t, func() {
		s := sim.NewCoreSim(cfg, fs, app)
		if err := runUntilDrained(s, cfg, fs, app); err != nil && err != errScriptUnfinished {
			t.Errorf("C02 regression (segments acknowledged one by one, the una-carrying datagram lost): %v", err)
		}
	})
	regressed(t, rec, "F2")
}

// F1 (fix 3589109): an ack-only flush must not admit segments into the send
// window: the next full flush sent them although the peer had meanwhile
// advertised window 0.
func TestC04RegressAckOnlyAdmission(t *testing.T) {
	rec := hx.NewRecorder(t)
	cfg := sim.CoreCfg{
		Stream: true,
		EP: [2]sim.EPConfig{
			{SndWnd: 1, RcvWnd: 2, Interval: 10},
			{SndWnd: 2, RcvWnd: 1, Interval: 10, AckNoDelay: true},
		},
	}
	fs := &sim.FateScript{BaseDelay: [2]int32{0, 20}}
	fs.Explicit[0] = parseFates("drop x1@0, drop drop drop drop drop drop x2@20,60, x2@0,20, drop drop drop drop drop drop drop drop drop drop")
	fs.Explicit[1] = parseFates("drop drop drop drop drop drop drop")
	app := [2]sim.AppScript{{Writes: []int{1, 1, 2, 2}}, {Writes: []int{1375, 11009}}}
	bubble(t, func() {
		s := sim.NewCoreSim(cfg, fs, app)
		obs := &c04Obs{}
		attachC04(s, obs)
		if err := s.Run(fs.EndTime() + 600_000); err != nil {
			t.Errorf("C04 regression (ack-only flush admitting segments): %v", err)
		}
	})
	regressed(t, rec, "F1")
}

// F9 (fix f5cb320): a PUSH inside the window whose length field exceeds the
// packet buffer size must be rejected, not sliced out of a 1500-byte buffer.
func TestC05RegressOversizePush(t *testing.T) {
	rec := hx.NewRecorder(t)
	for _, n := range []int{1501, 1600, 4000, 65000} {
		k := kcp.NewKCP(7, func([]byte, int) {})
		seg := wire.Segment{Conv: 7, Cmd: 81, Wnd: 32, Sn: 0, Data: make([]byte, n)}.Append(nil)
		func() {
			defer func() {
				if r := recover(); r != nil {
					t.Errorf("C05 regression: Input panicked on a PUSH of %d bytes inside the window: %v", n, r)
				}
			}()
			if ret := k.Input(seg, kcp.IKCP_PACKET_REGULAR, false); ret >= 0 {
				t.Errorf("C05 regression: Input accepted a PUSH of %d bytes (returned %d)", n, ret)
			}
			if sz := k.PeekSize(); sz > 0 {
				t.Errorf("C05 regression: a %d-byte PUSH became readable (%d bytes)", n, sz)
			}
		}()
	}
	regressed(t, rec, "F9")
}

// regressPair: two dialled sessions on a simulated network with a 5 ms link.
func regressPair(s *sim.SessSim) (x, y *kcp.UDPSession, cx, cy *sim.PConn) {
	a1, a2 := &net.UDPAddr{IP: net.IPv4(10, 0, 0, 1), Port: 1}, &net.UDPAddr{IP: net.IPv4(10, 0, 0, 2), Port: 2}
	cx, cy = s.Net.Listen(a1), s.Net.Listen(a2)
	s.DefaultDelay = 5
	x, _ = kcp.NewConn3(9, a2, nil, 0, 0, cx)
	y, _ = kcp.NewConn3(9, a1, nil, 0, 0, cy)
	for _, z := range []*kcp.UDPSession{x, y} {
		z.SetNoDelay(1, 10, 2, 1)
	}
	return
}

// F4 (fix 480c1fc): two goroutines blocked in Read, two messages arrive in one
// datagram: one wake-up token - the first reader must pass it on.
func TestC13RegressSecondReader(t *testing.T) {
	rec := hx.NewRecorder(t)
	bubble(t, func() {
		s := sim.NewSessSim(0, 7)
		x, y, cx, cy := regressPair(s)
		var calls []*sim.Call
		for i := 0; i < 2; i++ {
			calls = append(calls, s.Go("Read", func() (int, error, any) { n, err := x.Read(make([]byte, 10)); return n, err, nil }))
		}
		s.Quiesce()
		y.SetWriteDelay(true) // both messages leave in the next flush, in one datagram
		y.Write([]byte("aa"))
		y.Write([]byte("bbb"))
		s.SleepTo(500)
		for i, c := range calls {
			if !c.Done() {
				t.Errorf("C13 regression: reader %d is still blocked 500 ms after two messages arrived in one datagram (readable now: %v)", i, x.VerifReadable())
			} else if c.Err != nil {
				t.Errorf("C13 regression: reader %d returned %v", i, c.Err)
			}
		}
		x.Close()
		y.Close()
		cx.Close()
		cy.Close()
		s.Drain(1000)
	})
	regressed(t, rec, "F4")
}

// F5 (fix 2d99aef): a deadline set while a call is blocked without one is
// honoured; so is one that is cleared and then set again.
func TestC13RegressDeadlineWhileBlocked(t *testing.T) {
	rec := hx.NewRecorder(t)
	bubble(t, func() {
		s := sim.NewSessSim(0, 7)
		x, y, cx, cy := regressPair(s)
		at := func(ms int64) time.Time { return s.Start.Add(time.Duration(ms) * time.Millisecond) }
		// blocked without a deadline, then one is set
		c := s.Go("Read", func() (int, error, any) { n, err := x.Read(make([]byte, 10)); return n, err, nil })
		s.SleepTo(20)
		x.SetReadDeadline(at(50))
		s.SleepTo(49)
		if c.Done() {
			t.Errorf("C13 regression: Read returned at %d ms, before the deadline of 50 ms (%v)", c.Returned, c.Err)
		}
		s.SleepTo(60)
		if !c.Done() || !isTimeout(c.Err) {
			t.Errorf("C13 regression: Read blocked without a deadline ignores one set afterwards (done=%v err=%v at 60 ms, deadline 50 ms)", c.Done(), c.Err)
		}
		// set, cleared, set again
		x.SetReadDeadline(at(200))
		c = s.Go("Read", func() (int, error, any) { n, err := x.Read(make([]byte, 10)); return n, err, nil })
		s.SleepTo(100)
		x.SetReadDeadline(time.Time{})
		s.SleepTo(110)
		x.SetReadDeadline(at(150))
		s.SleepTo(160)
		if !c.Done() || !isTimeout(c.Err) {
			t.Errorf("C13 regression: deadline cleared and set again while Read is blocked never fires (done=%v err=%v at 160 ms, deadline 150 ms)", c.Done(), c.Err)
		}
		// the same for Write against a full send window
		x.SetWindowSize(1, 32)
		y.SetWindowSize(32, 1)
		cy.Close() // the peer is gone: nothing is ever acknowledged
		x.Write(make([]byte, 100))
		w := s.Go("Write", func() (int, error, any) { n, err := x.Write(make([]byte, 100)); return n, err, nil })
		s.SleepTo(200)
		if w.Done() {
			t.Errorf("C13 regression: Write into a full window returned (%d, %v)", w.N, w.Err)
		}
		x.SetWriteDeadline(at(250))
		s.SleepTo(260)
		if !w.Done() || !isTimeout(w.Err) {
			t.Errorf("C13 regression: Write blocked without a deadline ignores one set afterwards (done=%v err=%v)", w.Done(), w.Err)
		}
		x.Close()
		y.Close()
		cx.Close()
		s.Drain(1000)
	})
	regressed(t, rec, "F5")
}

// F10 (fix 9380a7a): sessions the listener created for peers nobody accepted
// are released by Listener.Close; a closed listener creates no more.
func TestC15RegressUnacceptedSessions(t *testing.T) {
	rec := hx.NewRecorder(t)
	var leaks []string
	pending := 0
	bubble(t, func() {
		s := sim.NewSessSim(0, 15)
		s.DefaultDelay = 5
		laddr := &net.UDPAddr{IP: net.IPv4(10, 0, 0, 1), Port: 29900}
		lconn := s.Net.Listen(laddr)
		L, _ := kcp.ServeConn(nil, 0, 0, lconn)
		var clis []*kcp.UDPSession
		var conns []*sim.PConn
		for i := 0; i < 3; i++ {
			c := s.Net.Listen(&net.UDPAddr{IP: net.IPv4(10, 0, 1, byte(i+1)), Port: 4000 + i})
			x, _ := kcp.NewConn3(uint32(100+i), laddr, nil, 0, 0, c)
			x.Write([]byte("hello"))
			clis, conns = append(clis, x), append(conns, c)
		}
		s.SleepTo(200) // the listener has created three sessions; nobody calls Accept
		if tbl, backlog := L.VerifSessions(); len(tbl) != 3 || backlog != 3 {
			t.Errorf("setup: listener has %d sessions, %d waiting to be accepted, want 3 and 3", len(tbl), backlog)
		}
		L.Close()
		// a late peer: the closed listener (caller-owned socket still open) must not start a session for it
		late := s.Net.Listen(&net.UDPAddr{IP: net.IPv4(10, 0, 1, 9), Port: 4009})
		lx, _ := kcp.NewConn3(999, laddr, nil, 0, 0, late)
		lx.Write([]byte("late"))
		s.SleepTo(400)
		if tbl, _ := L.VerifSessions(); len(tbl) != 0 {
			t.Errorf("C15 regression: %d session(s) in the table of a closed listener", len(tbl))
		}
		for _, x := range append(clis, lx) {
			x.Close()
		}
		for _, c := range append(conns, late, lconn) {
			c.Close()
		}
		s.Drain(600_000)
		pending = s.PendingTasks()
		leaks = sim.BubbleGoroutines()
	})
	if len(leaks) > 0 {
		t.Errorf("C15 regression: %d goroutine(s) of the library alive 10 min after everything was closed (sessions nobody accepted):\n  %s", len(leaks), strings.Join(leaks, "\n  "))
	}
	if pending > 0 {
		t.Errorf("C15 regression: %d scheduled callback(s) still pending", pending)
	}
	regressed(t, rec, "F10")
}

// F3 (fix 5e518f0): the raw core's SetMtu refuses what it cannot honour.
func TestC10RegressRawSetMtu(t *testing.T) {
	rec := hx.NewRecorder(t)
	k := kcp.NewKCP(1, func([]byte, int) {})
	for _, v := range []int{1525, 3000, 65536, 1 << 31, 1 << 32, int(^uint(0) >> 1)} {
		if ret := k.SetMtu(v); ret == 0 {
			func() {
				defer func() {
					if r := recover(); r != nil {
						t.Errorf("C10 regression: SetMtu(%d) accepted, then Send of a full segment panicked: %v", v, r)
					}
				}()
				k.Send(make([]byte, 2500))
			}()
		}
	}
	// a shrink below the size of segments that are already queued
	var sizes []int
	k2 := kcp.NewKCP(2, func(b []byte, n int) { sizes = append(sizes, n) })
	k2.NoDelay(1, 10, 2, 1)
	k2.Send(make([]byte, 1300))
	if ret := k2.SetMtu(100); ret == 0 {
		func() {
			defer func() {
				if r := recover(); r != nil {
					t.Errorf("C10 regression: SetMtu(100) accepted with a 1300-byte segment queued, flush panicked: %v", r)
				}
			}()
			k2.VerifFlush()
		}()
		for _, n := range sizes {
			if n > 100 || n == 0 {
				t.Errorf("C10 regression: SetMtu(100) accepted with a 1300-byte segment queued, then output called with %d bytes", n)
			}
		}
	}
	regressed(t, rec, "F3")
}
