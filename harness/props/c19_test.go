package props

// C19: an out-of-band message is delivered to the peer's handler intact or
// not at all; sending them at any rate or moment never alters, corrupts or
// permanently delays the reliable stream or weakens its FEC protection;
// oversize payloads and sessions without FEC are refused.

import (
	"encoding/binary"
	"fmt"
	"testing"

	kcp "github.com/xtaci/kcp-go/v5"
	"pgregory.net/rapid"
	"verif/harness/hx"
	"verif/harness/sim"
	"verif/harness/wire"
)

func oobPayload(end int, ctr int, n int) []byte {
	b := make([]byte, n)
	for i := range b {
		b[i] = byte(i*13 + ctr*7 + end)
	}
	// tag: sender and counter, as far as the length allows
	var tag [6]byte
	tag[0] = byte(0xA0 + end)
	tag[1] = 0x5C
	binary.LittleEndian.PutUint32(tag[2:], uint32(ctr))
	copy(b, tag[:])
	return b
}

func TestC19OOB(t *testing.T) {
	rec := hx.NewRecorder(t)
	rapid.Check(t, func(rt *rapid.T) {
		cfg := drawPairCfg(rt, pairGenOpts{FECMode: 1})
		fs := sim.DrawFateScript(rt, sim.FateOpts{MaxExplicit: 10, MaxRegimes: 3, MaxRegLen: 120, MaxDelay: 600, MaxLossPm: 300})
		app := drawSessApps(rt, pairMSS(cfg), 20, 80_000)
		if cfg.Listener && len(app[0].Writes) == 0 {
			app[0].Writes = []int{1} // a listener only learns of a peer that speaks first
		}
		handler := [2]int{rapid.IntRange(0, 3).Draw(rt, "handlerA"), rapid.IntRange(0, 3).Draw(rt, "handlerB")} // 0 none, 1 set, 2 set then replaced, 3 set then nil
		every := rapid.IntRange(1, 4).Draw(rt, "oobEvery")
		burst := rapid.SampledFrom([]int{1, 1, 2, 5, 40, 3000}).Draw(rt, "burst")
		maxCalls := rapid.IntRange(1, 60).Draw(rt, "maxCalls")
		// damaged OOB datagrams: next to some OOB packets the receiver also gets a
		// correctly sealed frame of the OOB type from its peer's address that stops
		// short - 0..11 bytes, less than the smallest OOB packet there is. It
		// must be dropped: no handler call, no effect on the stream, no crash.
		damageSeed := uint64(0)
		if rapid.Bool().Draw(rt, "damagedOOB") {
			damageSeed = rapid.Uint64Range(1, 1<<62).Draw(rt, "damageSeed")
		}
		damaged := 0
		var sentCount, handled, oversize, lostOOB, maxSized, zeroSized, between int
		var d snmpDelta
		completed := false
		rapid.SyncTest(rt, func(rt *rapid.T) {
			before := kcp.DefaultSnmp.Copy()
			s := sim.NewSessSim(cfg.ClockOff, cfg.EntropySeed)
			p, err := sim.NewPair(s, cfg, app)
			if err != nil {
				rt.Fatalf("setup: %v", err)
			}
			defer p.Finish(nil)
			setPairLinks(s, p, fs)
			sent := [2]map[string]bool{{}, {}}   // payloads end e has sent (SendOOB returned nil)
			allowed := [2]map[string]int{{}, {}} // copies of each payload the network delivers towards end e
			got := [2]map[string]int{{}, {}}     // handler invocations at end e
			var obs [2]*wireObserver
			mtu := func(e int) int {
				m := cfg.Opts[e].MTU
				if m == 0 {
					m = 1400
				}
				return min(m, 1500)
			}
			for e := 0; e < 2; e++ {
				e := e
				obs[e] = newWireObserver(p.Crypto, cfg.FEC[e], cfg.Conv, cfg.StreamID[e], cfg.Opts[e].Stream)
				obs[e].mtuModel = func() int { return mtu(e) }
				obs[e].clock = s.Now
			}
			lastType := [2]uint16{}
			s.OnSent = func(dg *sim.Sent, from, to string, f *sim.Fate) error {
				e := 0
				if from == p.Addr[1].String() {
					e = 1
				}
				nOOB := len(obs[e].OOBPayloads)
				if err := obs[e].Observe(dg.Data); err != nil {
					return err
				}
				if len(obs[e].OOBPayloads) > nOOB {
					pl := obs[e].OOBPayloads[len(obs[e].OOBPayloads)-1]
					if !sent[e][string(pl)] {
						return fmt.Errorf("OOB packet on the wire carries a payload (%d bytes) that end %d never passed to SendOOB", len(pl), e)
					}
					allowed[1-e][string(pl)] += f.Copies
					if h := hx.Hash64(damageSeed, e, len(obs[e].OOBPayloads)); damageSeed != 0 && h%2 == 0 {
						rest := make([]byte, 2+4+len(pl))
						binary.LittleEndian.PutUint16(rest, uint16(len(rest)))
						binary.LittleEndian.PutUint32(rest[2:], cfg.Conv)
						copy(rest[6:], pl)
						var nonce [16]byte
						binary.LittleEndian.PutUint64(nonce[:], h)
						binary.LittleEndian.PutUint64(nonce[8:], ^h)
						frame := wire.BuildFECRaw(wire.OOBSeqID, wire.TypeOOB, rest)
						if s.Net.Deliver(to, p.Addr[e], p.Crypto.Seal(nonce[:], frame[:int(h>>8)%12])) {
							damaged++
						}
					}
					if f.Copies == 0 {
						lostOOB++
					}
					if lastType[e] == 0xf1 {
						between++ // emitted right after a data packet of a group in progress
					}
					lastType[e] = 0xf3
				} else if n := len(obs[e].FECIDs); n > 0 {
					if int(obs[e].FECIDs[n-1])%(cfg.FEC[e][0]+cfg.FEC[e][1]) < cfg.FEC[e][0]-1 {
						lastType[e] = 0xf1
					} else {
						lastType[e] = 0xf2
					}
				}
				return nil
			}
			mkHandler := func(e int, gen int) kcp.OOBCallBackType {
				return func(b []byte) {
					handled++
					got[e][string(b)]++
					if !sent[1-e][string(b)] {
						s.Fail("OOB handler (generation %d) at end %d was given %d bytes that its peer never sent (first bytes %x)", gen, e, len(b), b[:min(len(b), 8)])
					} else if got[e][string(b)] > allowed[e][string(b)] {
						s.Fail("OOB payload delivered to the handler at end %d %d times, the network delivered its datagram %d time(s)", e, got[e][string(b)], allowed[e][string(b)])
					}
				}
			}
			setHandlers := func(stage int) {
				for e := 0; e < 2; e++ {
					if p.Sess[e] == nil {
						continue
					}
					switch {
					case stage == 0 && handler[e] >= 1:
						p.Sess[e].SetOOBHandler(mkHandler(e, 0))
					case stage == 1 && handler[e] == 2:
						p.Sess[e].SetOOBHandler(mkHandler(e, 1))
					case stage == 1 && handler[e] == 3:
						p.Sess[e].SetOOBHandler(nil)
					}
				}
			}
			ctr := 0
			handlersSet := [2]bool{}
			sendBurst := func() {
				for e := 0; e < 2; e++ {
					if p.Sess[e] != nil && !handlersSet[e] {
						handlersSet[e] = true
						if handler[e] >= 1 {
							p.Sess[e].SetOOBHandler(mkHandler(e, 0))
						}
					}
				}
				e := rapid.IntRange(0, 1).Draw(rt, "oobFrom")
				if p.Sess[e] == nil {
					return
				}
				max := p.Sess[e].GetOOBMaxSize()
				if want := mtu(e) - p.Crypto.HeaderSize() - p.Crypto.TagSize() - 8 - 4; max != want {
					s.Fail("GetOOBMaxSize() = %d at end %d, the documented layout leaves %d (MTU %d)", max, e, want, mtu(e))
					return
				}
				for i := 0; i < burst && sentCount+oversize < maxCalls*burst; i++ {
					n := rapid.SampledFrom([]int{0, 1, 6, 7, 100, max - 1, max, max + 1, max + 100}).Draw(rt, "oobLen")
					if burst > 100 {
						n = 6 + i%50
					}
					n = maxInt(n, 0)
					ctr++
					pl := oobPayload(e, ctr, n)
					dgBefore := p.Conn[e].Writes
					err := p.Sess[e].SendOOB(pl)
					if n > max {
						oversize++
						if err == nil {
							s.Fail("SendOOB accepted %d bytes, GetOOBMaxSize() is %d", n, max)
						}
						s.Quiesce()
						if p.Conn[e].Writes != dgBefore && len(obs[e].OOBPayloads) > 0 && len(obs[e].OOBPayloads[len(obs[e].OOBPayloads)-1]) == n {
							s.Fail("a refused oversize OOB payload (%d bytes) went on the wire", n)
						}
						continue
					}
					if err != nil {
						s.Fail("SendOOB(%d bytes) failed: %v (max %d)", n, err, max)
						return
					}
					sent[e][string(pl)] = true
					sentCount++
					if n == max {
						maxSized++
					}
					if n == 0 {
						zeroSized++
					}
				}
			}
			reads, stage := 0, 0
			p.OnRead = func(r, n int, err error) {
				reads++
				if reads%every == 0 && sentCount+oversize < maxCalls*burst {
					sendBurst()
				}
				if stage == 0 && reads > 6 {
					stage = 1
					setHandlers(1)
				}
			}
			sendBurst() // also before any stream traffic
			var totalBytes int64
			for w := 0; w < 2; w++ {
				_, _, tt := p.Progress(w)
				totalBytes += tt
			}
			err = runPairUntilComplete(p, s, fs.EndTime(), totalBytes/int64(min(p.MSS[0], p.MSS[1]))+10, cfg.Opts[0].Interval+cfg.Opts[1].Interval)
			if err == errScriptUnfinished {
				rec.Class("script_unfinished_inconclusive", 1)
				err = nil
			}
			completed = p.Complete()
			if err != nil {
				err = fmt.Errorf("%v (the reliable stream must not be delayed for good; %d OOB packets were sent)", err, sentCount)
			}
			d = snmpSince(before)
			if err != nil {
				rt.Fatalf("C19: %v\ncase: %+v", err, describePair(cfg, fs, app))
			}
		})
		cl := []string{"cipher_" + cfg.Cipher}
		addIf := func(c bool, n string) {
			if c {
				cl = append(cl, n)
			}
		}
		addIf(completed, "completed")
		addIf(handled > 0, "handler_invoked")
		addIf(oversize > 0, "oversize_refused")
		addIf(lostOOB > 0, "oob_lost")
		addIf(maxSized > 0, "max_size_payload")
		addIf(zeroSized > 0, "empty_payload")
		addIf(between > 0, "oob_inside_fec_group")
		addIf(d.FECRecovered > 0, "fec_recovery_used")
		addIf(burst >= 3000, "burst_beyond_queue_depth")
		addIf(damaged > 0, "truncated_oob_frames_from_the_peer_address")
		addIf(handler[0] == 0 || handler[1] == 0, "one_side_without_handler")
		rec.Add("n_oob_sent", int64(sentCount))
		rec.Add("n_oob_handled", int64(handled))
		rec.Case(hx.Hash64(describePair(cfg, fs, app), handler, every, burst, maxCalls), between > 0 && lostOOB > 0 && d.FECRecovered > 0, cl...)
		if rec.WantSample() {
			dd := describePair(cfg, fs, app)
			dd["oob"] = map[string]any{"sent": sentCount, "handled": handled, "oversize_refused": oversize, "lost": lostOOB, "inside_fec_group": between, "burst": burst, "handlers": handler}
			rec.Sample(dd)
		}
	})
}

func maxInt(a, b int) int {
	if a > b {
		return a
	}
	return b
}

// TestC19NoFEC: sessions without FEC refuse OOB.
func TestC19NoFEC(t *testing.T) {
	rec := hx.NewRecorder(t)
	n := 0
	bubble(t, func() {
		for _, cipher := range []string{"null", "aes-128", "aes-128-gcm", "salsa20"} {
			s := sim.NewSessSim(0, 5)
			cfg := sim.PairCfg{Cipher: cipher, Key: make([]byte, 32)[:keyLenFor(cipher)], Conv: 5, Opts: [2]sim.SessOpts{{SndWnd: 32, RcvWnd: 32, Interval: 10}, {SndWnd: 32, RcvWnd: 32, Interval: 10}}}
			p, err := sim.NewPair(s, cfg, [2]sim.AppScript{})
			if err != nil {
				t.Fatal(err)
			}
			if p.Sess[0].SendOOB([]byte("x")) == nil {
				t.Errorf("%s: SendOOB succeeded on a session without FEC", cipher)
			}
			if p.Sess[0].SetOOBHandler(func([]byte) {}) == nil {
				t.Errorf("%s: SetOOBHandler succeeded on a session without FEC", cipher)
			}
			if m := p.Sess[0].GetOOBMaxSize(); m != 0 {
				t.Errorf("%s: GetOOBMaxSize() = %d on a session without FEC", cipher, m)
			}
			s.Quiesce()
			if s.Datagrams != 0 {
				t.Errorf("%s: a refused OOB call put %d datagram(s) on the wire", cipher, s.Datagrams)
			}
			p.Finish(nil)
			n++
			rec.Case(uint64(n), true, "no_fec_refusal")
		}
	})
	rec.Sample(map[string]any{"ciphers": []string{"null", "aes-128", "aes-128-gcm", "salsa20"}, "calls": []string{"SendOOB", "SetOOBHandler", "GetOOBMaxSize"}})
}
