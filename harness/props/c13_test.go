package props

// C13: a goroutine blocked in Read, Write or Accept returns when what it waits
// for becomes possible, when its deadline (set before or while it is blocked,
// extended, cleared or set again) expires, on Close and on socket errors; with
// several goroutines blocked, readable data / free window is never left
// unclaimed. rapid state machines over the real session in virtual time.

import (
	"encoding/binary"
	"errors"
	"fmt"
	"io"
	"net"
	"os"
	"syscall"
	"testing"
	"time"
	"verif/harness/wire"

	kcp "github.com/xtaci/kcp-go/v5"
	"pgregory.net/rapid"
	"verif/harness/hx"
	"verif/harness/sim"
)

type c13Call struct {
	c      *sim.Call
	kind   string
	size   int
	issued int64
	// readableAfterClose: the call was issued after Close while received data was still pending
	readableAfterClose bool
}

type c13 struct {
	rt             *rapid.T
	s              *sim.SessSim
	X, Y           *kcp.UDPSession
	L              *kcp.Listener // the listener that handed out X, if any
	listenerClosed bool
	connX          *sim.PConn
	connY          *sim.PConn
	interval       int
	readers        []*c13Call
	writers        []*c13Call
	rd, wd         int64 // deadline in force in ms since start, noDeadline = none
	rdSetAt        int64
	wdSetAt        int64
	closed         bool
	closes         int
	readErr        error
	writeErr       error
	tempWriteErr   int
	writeErrAt     int // connX.Writes when the write error was injected
	writableAt     int64
	err            error
	trace          []string

	// statistics for the non-triviality rule
	deadlineWhileBlocked, closeWhileBlocked, errWhileBlocked, multiBlocked int
	timeouts, dataWakes, windowWakes                                       int
	excluded                                                               int
	dropYX, dropXY                                                         int // datagrams the network will drop next, per direction
	lossy                                                                  int
	garbleYX, garbled                                                      int
}

const c13KeyOneWaiter = "C13:deadline-change-wakes-only-one-of-several-blocked-callers"

const noDeadline = int64(-1) << 60

var errInjectedRead = errors.New("injected socket read error")
var errInjectedWrite = errors.New("injected socket write error")
var errInjectedWrites = []error{
	errInjectedWrite,
	&net.OpError{Op: "write", Net: "udp", Err: os.ErrDeadlineExceeded},
	&net.OpError{Op: "write", Net: "udp", Err: &os.SyscallError{Syscall: "sendto", Err: syscall.EAGAIN}},
}

func (m *c13) now() int64 { return m.s.Now() }

func (m *c13) failf(format string, a ...any) {
	if m.err == nil {
		m.err = fmt.Errorf("t=%dms: %s", m.now(), fmt.Sprintf(format, a...))
	}
}

func (m *c13) log(format string, a ...any) {
	m.trace = append(m.trace, fmt.Sprintf("t=%d %s", m.now(), fmt.Sprintf(format, a...)))
}

func isTimeout(err error) bool {
	var ne net.Error
	return errors.As(err, &ne) && ne.Timeout()
}

// collect validates every call that has returned.
func (m *c13) collect() {
	keep := m.readers[:0]
	for _, r := range m.readers {
		if !r.c.Done() {
			keep = append(keep, r)
			continue
		}
		m.log("Read(%d) returned n=%d err=%v at %d", r.size, r.c.N, r.c.Err, r.c.Returned)
		m.validate(r, m.rd, m.rdSetAt, m.readErr)
	}
	m.readers = keep
	keepw := m.writers[:0]
	for _, w := range m.writers {
		if !w.c.Done() {
			keepw = append(keepw, w)
			continue
		}
		m.log("Write(%d) returned n=%d err=%v at %d", w.size, w.c.N, w.c.Err, w.c.Returned)
		m.validate(w, m.wd, m.wdSetAt, m.writeErr)
		m.writableAt = -1 // a waiting writer was served: the interval allowance starts again
	}
	m.writers = keepw
}

func (m *c13) validate(c *c13Call, deadline, setAt int64, sockErr error) {
	err := c.c.Err
	T := c.c.Returned
	switch {
	case err == nil:
		if c.kind == "read" {
			if c.c.N <= 0 || c.c.N > c.size {
				m.failf("Read(%d) returned n=%d without error", c.size, c.c.N)
			}
			m.dataWakes++
		} else {
			if c.c.N != c.size {
				m.failf("Write(%d) returned n=%d without error", c.size, c.c.N)
			}
			if m.closed {
				m.failf("Write succeeded after Close")
			}
			m.windowWakes++
		}
	case sockErr != nil && errors.Is(err, sockErr):
		// the socket's own error, which may itself be an "i/o timeout" (a send
		// deadline on the socket): not the session's deadline
	case isTimeout(err):
		m.timeouts++
		if deadline == noDeadline {
			m.failf("%s returned a timeout error at %d ms but no deadline is in force", c.kind, T)
			return
		}
		if T < deadline {
			m.failf("%s returned a timeout error at %d ms, before its deadline %d ms", c.kind, T, deadline)
			return
		}
		if want := max(deadline, setAt, c.issued); T != want {
			m.failf("%s timed out at %d ms; deadline in force %d ms (set at %d ms, call issued at %d ms): should have fired at %d ms", c.kind, T, deadline, setAt, c.issued, want)
		}
	case errors.Is(err, io.ErrClosedPipe):
		if !m.closed {
			m.failf("%s returned %v but the session is not closed", c.kind, err)
		}
		if c.readableAfterClose {
			m.failf("Read after Close failed with %v although data received before Close was still pending (Read must drain it first)", err)
		}
	default:
		m.failf("%s returned unexpected error %v", c.kind, err)
	}
}

// invariant: a call is still blocked => none of its reasons to return holds.
func (m *c13) invariant() {
	m.collect()
	if m.err != nil {
		return
	}
	now := m.now()
	if len(m.readers) > 0 {
		switch {
		case m.X.VerifReadable():
			m.failf("%d reader(s) blocked in Read while data is readable", len(m.readers))
		case m.rd != noDeadline && now >= m.rd:
			m.failf("reader still blocked at %d ms, read deadline in force is %d ms (set at %d ms; call issued at %d ms)", now, m.rd, m.rdSetAt, m.readers[0].issued)
		case m.closed:
			m.failf("reader still blocked after Close")
		case m.readErr != nil:
			m.failf("reader still blocked after the socket reported a read error")
		}
	}
	if len(m.writers) > 0 {
		switch {
		case m.wd != noDeadline && now >= m.wd:
			m.failf("writer still blocked at %d ms, write deadline in force is %d ms (set at %d ms; call issued at %d ms)", now, m.wd, m.wdSetAt, m.writers[0].issued)
		case m.closed:
			m.failf("writer still blocked after Close")
		case m.writeErr != nil && m.connX.Writes > m.writeErrAt:
			m.failf("writer still blocked after the socket reported a write error")
		}
		// Free window is re-announced by the periodic update, one wake-up per
		// flush: as long as some blocked writer is served within every flush
		// interval the window is being claimed. (An earlier version demanded
		// that all writers return within one interval; the code never claims
		// that - see DESIGN.md, false alarms.)
		if m.X.VerifWritable() {
			if m.writableAt < 0 {
				m.writableAt = now
			} else if now-m.writableAt > int64(m.interval)+1 {
				m.failf("%d writer(s) still blocked %d ms after the send window opened (flush interval %d ms)", len(m.writers), now-m.writableAt, m.interval)
			}
		} else {
			m.writableAt = -1
		}
	} else {
		m.writableAt = -1
	}
}

func (m *c13) startRead(t *rapid.T) {
	if len(m.readers) >= 3 {
		t.Skip("enough readers")
	}
	size := rapid.SampledFrom([]int{1, 10, 2000, 65536}).Draw(t, "buf")
	buf := make([]byte, size)
	x := m.X
	c := &c13Call{kind: "read", size: size, issued: m.now()}
	c.readableAfterClose = m.closed && m.X.VerifReadable()
	c.c = m.s.Go("Read", func() (int, error, any) { n, err := x.Read(buf); return n, err, nil })
	m.readers = append(m.readers, c)
	m.log("start Read(%d)", size)
	m.s.Quiesce()
	if len(m.readers) >= 2 {
		m.collect()
		if len(m.readers) >= 2 {
			m.multiBlocked++
		}
	}
}

func (m *c13) startWrite(t *rapid.T) {
	if len(m.writers) >= 3 {
		t.Skip("enough writers")
	}
	size := rapid.SampledFrom([]int{1, 100, 1300, 4000}).Draw(t, "n")
	buf := make([]byte, size)
	x := m.X
	c := &c13Call{kind: "write", size: size, issued: m.now()}
	c.c = m.s.Go("Write", func() (int, error, any) { n, err := x.Write(buf); return n, err, nil })
	m.writers = append(m.writers, c)
	m.log("start Write(%d)", size)
	m.s.Quiesce()
	if len(m.writers) >= 2 {
		m.collect()
		if len(m.writers) >= 2 {
			m.multiBlocked++
		}
	}
}

// peerWrite lets the peer send k messages, which arrive in one datagram when
// they fit (the peer runs with write delay on).
func (m *c13) peerWrite(t *rapid.T) {
	k := rapid.IntRange(1, 4).Draw(t, "k")
	for i := 0; i < k; i++ {
		if !m.Y.VerifWritable() {
			break
		}
		m.Y.Write(make([]byte, rapid.SampledFrom([]int{1, 50, 600}).Draw(t, "len")))
	}
	m.log("peer wrote %d messages", k)
	m.s.Quiesce()
}

// peerRead drains the peer's receive side, which opens X's send window.
// lose makes the network drop the next 1..2 datagrams of one direction: data
// then arrives through FEC recovery or retransmission, acknowledgements through
// later cumulative ones - the wake-ups must come all the same.
func (m *c13) lose(t *rapid.T) {
	if rapid.Bool().Draw(t, "towardsX") {
		m.dropYX = rapid.IntRange(1, 2).Draw(t, "n")
	} else {
		m.dropXY = rapid.IntRange(1, 2).Draw(t, "n")
	}
	m.lossy++
	m.log("network drops the next datagram(s): Y->X %d, X->Y %d", m.dropYX, m.dropXY)
}

func (m *c13) peerRead(t *rapid.T) {
	buf := make([]byte, 65536)
	n := 0
	for m.Y.VerifReadable() && n < 1000 {
		m.Y.Read(buf)
		n++
	}
	m.log("peer read %d messages", n)
	m.s.Quiesce()
}

func (m *c13) drawDeadline(t *rapid.T) (time.Time, int64) {
	now := m.now()
	switch rapid.IntRange(0, 5).Draw(t, "dk") {
	case 0:
		return time.Time{}, noDeadline
	case 1:
		d := now - int64(rapid.IntRange(1, 500).Draw(t, "past"))
		return m.s.Start.Add(time.Duration(d) * time.Millisecond), d
	case 2:
		return m.s.Start.Add(time.Duration(now) * time.Millisecond), now
	default:
		d := now + int64(rapid.SampledFrom([]int{1, 7, 30, 100, 450, 3000}).Draw(t, "in"))
		return m.s.Start.Add(time.Duration(d) * time.Millisecond), d
	}
}

func (m *c13) setDeadline(t *rapid.T) {
	if m.closed && rapid.Bool().Draw(t, "skipAfterClose") {
		t.Skip("closed")
	}
	which := rapid.SampledFrom([]string{"read", "write", "both"}).Draw(t, "which")
	if ((which != "write" && len(m.readers) >= 2) || (which != "read" && len(m.writers) >= 2)) && hx.IsKnown(c13KeyOneWaiter) {
		// listed finding: a deadline change reaches only one of several blocked
		// callers; the class is left out so that the search goes on behind it
		m.excluded++
		t.Skip("known finding class")
	}
	tm, ms := m.drawDeadline(t)
	blocked := (which != "write" && len(m.readers) > 0) || (which != "read" && len(m.writers) > 0)
	if blocked {
		m.deadlineWhileBlocked++
	}
	switch which {
	case "read":
		m.X.SetReadDeadline(tm)
		m.rd, m.rdSetAt = ms, m.now()
	case "write":
		m.X.SetWriteDeadline(tm)
		m.wd, m.wdSetAt = ms, m.now()
	default:
		m.X.SetDeadline(tm)
		m.rd, m.rdSetAt, m.wd, m.wdSetAt = ms, m.now(), ms, m.now()
	}
	if ms == noDeadline {
		m.log("Set%sDeadline(zero time: no deadline)", which)
	} else {
		m.log("Set%sDeadline(%d ms)", which, ms)
	}
	m.s.Quiesce()
}

func (m *c13) advance(t *rapid.T) {
	d := int64(rapid.SampledFrom([]int{1, 3, 10, 25, 100, 500, 3000}).Draw(t, "ms"))
	m.log("advance %d ms", d)
	m.s.SleepTo(m.now() + d)
}

func (m *c13) closeX(t *rapid.T) {
	if m.closes >= 2 {
		t.Skip("closed twice already")
	}
	if m.closes == 0 && rapid.IntRange(0, 2).Draw(t, "notYet") != 0 {
		t.Skip("keep the session open a little longer")
	}
	if len(m.readers)+len(m.writers) > 0 && !m.closed {
		m.closeWhileBlocked++
	}
	err := m.X.Close()
	m.closes++
	m.log("Close -> %v", err)
	if m.closes == 1 && err != nil {
		m.failf("first Close returned %v", err)
	}
	if m.closes == 2 && err == nil {
		m.failf("second Close returned nil")
	}
	m.closed = true
	m.s.Quiesce()
}

func (m *c13) socketError(t *rapid.T) {
	if rapid.Bool().Draw(t, "readSide") {
		if m.readErr != nil {
			t.Skip("already injected")
		}
		if len(m.readers) > 0 {
			m.errWhileBlocked++
		}
		m.readErr = errInjectedRead
		m.connX.InjectReadError(errInjectedRead)
		m.log("inject socket read error")
	} else {
		if m.writeErr != nil {
			t.Skip("already injected")
		}
		if len(m.writers) > 0 {
			m.errWhileBlocked++
		}
		// what a socket reports comes in kinds: a plain error, and errors that
		// call themselves temporary (a send deadline on the socket, EAGAIN); the
		// session reports them all, and a blocked Write returns with it
		m.writeErr = errInjectedWrites[rapid.IntRange(0, len(errInjectedWrites)-1).Draw(t, "writeErrKind")]
		m.writeErrAt = m.connX.Writes
		m.connX.InjectWriteError(m.writeErr)
		if ne, ok := m.writeErr.(net.Error); ok && ne.Timeout() {
			m.tempWriteErr++
		}
		m.log("inject socket write error: %v", m.writeErr)
	}
	m.s.Quiesce()
}

func newC13(rt *rapid.T) *c13 {
	m := &c13{rt: rt, rd: noDeadline, wd: noDeadline, writableAt: -1}
	m.s = sim.NewSessSim(0, 7)
	m.s.DefaultDelay = int32(rapid.SampledFrom([]int{0, 2, 15}).Draw(rt, "delay"))
	fec := rapid.SampledFrom([][2]int{{0, 0}, {0, 0}, {2, 1}, {1, 1}}).Draw(rt, "fec")
	addrX, addrY := &net.UDPAddr{IP: net.IPv4(10, 0, 0, 1), Port: 1}, &net.UDPAddr{IP: net.IPv4(10, 0, 0, 2), Port: 2}
	m.connX, m.connY = m.s.Net.Listen(addrX), m.s.Net.Listen(addrY)
	m.Y, _ = kcp.NewConn3(77, addrX, nil, fec[0], fec[1], m.connY)
	if rapid.IntRange(0, 2).Draw(rt, "xAccepted") == 0 {
		// X is a session handed out by a listener: it has no receive loop of its
		// own, the listener's loop reads the socket for it and passes socket
		// errors on - also after the listener itself has been closed
		m.L, _ = kcp.ServeConn(nil, fec[0], fec[1], m.connX)
		m.Y.Write([]byte{0x5a})
		m.s.SleepTo(m.s.Now() + 200)
		x, err := m.L.AcceptKCP() // the session is waiting in the backlog
		if err != nil {
			rt.Fatalf("setup: accept: %v", err)
		}
		m.X = x
		buf := make([]byte, 8)
		if n, err := m.X.Read(buf); n != 1 || err != nil { // the byte is readable already
			rt.Fatalf("setup: first byte: %d, %v", n, err)
		}
		m.s.SleepTo(m.s.Now() + 200) // the acknowledgement of that byte is home
		m.log("X is an accepted session")
	} else {
		m.X, _ = kcp.NewConn3(77, addrY, nil, fec[0], fec[1], m.connX)
	}
	m.interval = rapid.SampledFrom([]int{10, 40}).Draw(rt, "interval")
	m.X.SetWindowSize(rapid.SampledFrom([]int{1, 2, 4}).Draw(rt, "xsnd"), 32)
	m.X.SetNoDelay(1, m.interval, 2, 1)
	m.Y.SetWindowSize(128, rapid.SampledFrom([]int{1, 2, 4, 32}).Draw(rt, "yrcv"))
	m.Y.SetNoDelay(1, m.interval, 2, 1)
	m.Y.SetWriteDelay(true)
	m.s.AfterEvent = m.invariant
	xa, ya := addrX.String(), addrY.String()
	m.s.OnSent = func(d *sim.Sent, from, to string, f *sim.Fate) error {
		if from == ya && to == xa && m.garbleYX > 0 && len(d.Data) >= 24 && (fec[0] == 0 || binary.LittleEndian.Uint16(d.Data[4:]) == 0xf1) {
			// the datagram arrives with something behind its last segment that the
			// core rejects (a segment header with an unknown command): what stands
			// in front of it has been applied all the same, and whoever waits for
			// it must be woken
			m.garbleYX--
			tail := wire.Segment{Conv: 77, Cmd: 0x70, Wnd: 32}.Append(nil)
			d.Data = append(append([]byte(nil), d.Data...), tail...)
			m.garbled++
		}
		if from == ya && to == xa && m.dropYX > 0 {
			m.dropYX--
			*f = sim.Fate{}
		} else if from == xa && to == ya && m.dropXY > 0 {
			m.dropXY--
			*f = sim.Fate{}
		}
		return nil
	}
	return m
}

// shutdown closes everything and lets goroutines and callbacks run out; it is
// deferred so that a failing or aborted case never leaves the bubble dirty.
func (m *c13) shutdown() {
	m.s.AfterEvent = nil
	m.X.Close()
	m.Y.Close()
	if m.L != nil {
		m.L.Close()
	}
	m.connX.Close()
	m.connY.Close()
	m.s.Drain(5000)
}

func (m *c13) finish() {
	m.shutdown()
	m.closed = true
	m.collect()
	if n := len(m.readers) + len(m.writers); n > 0 && m.err == nil {
		m.failf("%d call(s) still blocked after Close of session and socket", n)
	}
}

func TestC13Session(t *testing.T) {
	rec := hx.NewRecorder(t)
	rapid.Check(t, func(rt *rapid.T) {
		var m *c13
		rapid.SyncTest(rt, func(rt *rapid.T) {
			m = newC13(rt)
			defer m.shutdown()
			wrap := func(f func(*rapid.T)) func(*rapid.T) {
				return func(t *rapid.T) {
					if m.err != nil {
						t.Skip("failed already")
					}
					f(t)
				}
			}
			steps := 0
			rt.Repeat(map[string]func(*rapid.T){
				"startRead":    wrap(m.startRead),
				"startWrite":   wrap(m.startWrite),
				"peerWrite":    wrap(m.peerWrite),
				"peerRead":     wrap(m.peerRead),
				"lose":         wrap(m.lose),
				"setDeadline":  wrap(m.setDeadline),
				"setDeadline2": wrap(m.setDeadline),
				"setDeadline3": wrap(m.setDeadline),
				"startRead2":   wrap(m.startRead),
				"startWrite2":  wrap(m.startWrite),
				"advance":      func(t *rapid.T) { m.advance(t) },
				"advance2":     func(t *rapid.T) { m.advance(t) },
				"close":        wrap(m.closeX),
				"socketError":  wrap(m.socketError),
				"garbleTail": wrap(func(t *rapid.T) {
					m.garbleYX = rapid.IntRange(1, 3).Draw(t, "n")
					m.log("the next %d datagram(s) Y->X arrive with a rejected tail behind their segments", m.garbleYX)
				}),
				"listenerClose": wrap(func(t *rapid.T) {
					if m.L == nil || m.listenerClosed {
						t.Skip("no listener to close")
					}
					m.listenerClosed = true
					m.L.Close() // the socket is the caller's: the session goes on
					m.log("Close of the listener that handed out X")
					m.s.Quiesce()
				}),
				"": func(t *rapid.T) {
					steps++
					m.invariant()
					if m.err != nil {
						t.Fatalf("C13: %v\nhistory:\n  %s", m.err, joinLines(m.trace))
					}
				},
			})
			m.finish()
			if m.err != nil {
				rt.Fatalf("C13: %v\nhistory:\n  %s", m.err, joinLines(m.trace))
			}
		})
		var cl []string
		if m.deadlineWhileBlocked > 0 {
			cl = append(cl, "deadline_set_while_blocked")
		}
		if m.closeWhileBlocked > 0 {
			cl = append(cl, "close_while_blocked")
		}
		if m.errWhileBlocked > 0 {
			cl = append(cl, "socket_error_while_blocked")
		}
		if m.tempWriteErr > 0 {
			cl = append(cl, "socket_write_error_that_calls_itself_temporary")
		}
		if m.multiBlocked > 0 {
			cl = append(cl, "several_callers_blocked")
		}
		if m.timeouts > 0 {
			cl = append(cl, "timeout_returned")
		}
		if m.garbled > 0 {
			cl = append(cl, "datagram_with_a_rejected_tail")
		}
		if m.L != nil {
			cl = append(cl, "session_handed_out_by_a_listener")
			if m.listenerClosed {
				cl = append(cl, "its_listener_closed_meanwhile")
			}
		}
		if m.dataWakes > 0 {
			cl = append(cl, "read_returned_data")
		}
		if m.windowWakes > 0 {
			cl = append(cl, "write_admitted")
		}
		if m.lossy > 0 {
			cl = append(cl, "datagrams_lost")
		}
		for i := 0; i < m.excluded; i++ {
			rec.Exclude(c13KeyOneWaiter)
		}
		nontrivial := m.deadlineWhileBlocked+m.closeWhileBlocked+m.errWhileBlocked+m.multiBlocked > 0
		rec.Case(hx.Hash64(m.trace), nontrivial, cl...)
		if rec.WantSample() {
			tr := m.trace
			if len(tr) > 40 {
				tr = tr[:40]
			}
			rec.Sample(map[string]any{"history": tr})
		}
	})
}

func joinLines(l []string) string {
	out := ""
	for i, s := range l {
		if i > 0 {
			out += "\n  "
		}
		out += s
	}
	return out
}

// TestC13KnownDeadlineOneWaiter is the reproducer of the listed finding
// c13KeyOneWaiter (shrunk by rapid from TestC13Session).
func TestC13KnownDeadlineOneWaiter(t *testing.T) {
	rec := hx.NewRecorder(t)
	stillBlocked := -1
	bubble(t, func() {
		s := sim.NewSessSim(0, 7)
		a1, a2 := &net.UDPAddr{IP: net.IPv4(10, 0, 0, 1), Port: 1}, &net.UDPAddr{IP: net.IPv4(10, 0, 0, 2), Port: 2}
		c1, c2 := s.Net.Listen(a1), s.Net.Listen(a2)
		x, _ := kcp.NewConn3(1, a2, nil, 0, 0, c1)
		var calls []*sim.Call
		for i := 0; i < 2; i++ {
			calls = append(calls, s.Go("Read", func() (int, error, any) { n, err := x.Read(make([]byte, 10)); return n, err, nil }))
		}
		s.Quiesce()
		x.SetReadDeadline(s.Start.Add(-time.Millisecond))
		s.SleepTo(50)
		stillBlocked = 0
		for _, c := range calls {
			if !c.Done() {
				stillBlocked++
			} else if !isTimeout(c.Err) {
				t.Errorf("reader returned %v, want a timeout", c.Err)
			}
		}
		x.Close()
		c1.Close()
		c2.Close()
		s.Drain(1000)
	})
	rec.Case(1, true, "reproducer")
	rec.Case(2, true, "reproducer")
	if stillBlocked > 0 {
		rec.Finding(c13KeyOneWaiter, fmt.Sprintf("two goroutines blocked in Read, SetReadDeadline(past): %d of them still blocked 50 ms later", stillBlocked))
	}
}

// ---------------------------------------------------------------- Accept

const c13KeyAccept = "C13:accept-ignores-deadline-set-while-blocked"

type c13a struct {
	s         *sim.SessSim
	L         *kcp.Listener
	conn      *sim.PConn
	acceptors []*c13Call
	rd        int64
	rdSetAt   int64
	closed    bool
	closes    int
	readErr   error
	peers     int
	accepted  int
	clients   []*kcp.UDPSession
	cconns    []*sim.PConn
	sessions  []*kcp.UDPSession
	err       error
	trace     []string
	excluded  int

	deadlineWhileBlocked, closeWhileBlocked, errWhileBlocked, multiBlocked, timeouts int
}

func (m *c13a) failf(format string, a ...any) {
	if m.err == nil {
		m.err = fmt.Errorf("t=%dms: %s", m.s.Now(), fmt.Sprintf(format, a...))
	}
}
func (m *c13a) log(format string, a ...any) {
	m.trace = append(m.trace, fmt.Sprintf("t=%d %s", m.s.Now(), fmt.Sprintf(format, a...)))
}

func (m *c13a) collect() {
	keep := m.acceptors[:0]
	for _, a := range m.acceptors {
		if !a.c.Done() {
			keep = append(keep, a)
			continue
		}
		err, T := a.c.Err, a.c.Returned
		m.log("Accept returned err=%v at %d", err, T)
		switch {
		case err == nil:
			m.accepted++
			if m.accepted > m.peers {
				m.failf("Accept returned %d sessions, only %d peers connected", m.accepted, m.peers)
			}
			if sess, ok := a.c.Val.(*kcp.UDPSession); ok && sess != nil {
				m.sessions = append(m.sessions, sess)
			} else {
				m.failf("Accept returned neither session nor error")
			}
		case isTimeout(err):
			m.timeouts++
			// the deadline the call could know: the one in force when it returned
			if m.rd == noDeadline {
				m.failf("Accept returned a timeout error at %d ms but no deadline is in force", T)
			} else if T < m.rd {
				m.failf("Accept returned a timeout error at %d ms, before its deadline %d ms", T, m.rd)
			} else if want := max(m.rd, m.rdSetAt, a.issued); T != want {
				m.failf("Accept timed out at %d ms; deadline in force %d ms (set at %d ms, call issued at %d ms): should have fired at %d ms", T, m.rd, m.rdSetAt, a.issued, want)
			}
		case errors.Is(err, io.ErrClosedPipe):
			if !m.closed {
				m.failf("Accept returned %v but the listener is not closed", err)
			}
		case m.readErr != nil && errors.Is(err, m.readErr):
		default:
			m.failf("Accept returned unexpected error %v", err)
		}
	}
	m.acceptors = keep
}

func (m *c13a) invariant() {
	m.collect()
	if m.err != nil || len(m.acceptors) == 0 {
		return
	}
	now := m.s.Now()
	_, backlog := m.L.VerifSessions()
	switch {
	case backlog > 0:
		m.failf("%d goroutine(s) blocked in Accept while %d session(s) wait in the backlog", len(m.acceptors), backlog)
	case m.rd != noDeadline && now >= m.rd:
		m.failf("Accept still blocked at %d ms, deadline in force is %d ms (set at %d ms; call issued at %d ms)", now, m.rd, m.rdSetAt, m.acceptors[0].issued)
	case m.closed:
		m.failf("Accept still blocked after the listener was closed")
	case m.readErr != nil:
		m.failf("Accept still blocked after the socket reported a read error")
	}
}

func (m *c13a) shutdown() {
	m.s.AfterEvent = nil
	for _, c := range m.clients {
		c.Close()
	}
	for _, c := range m.sessions {
		c.Close()
	}
	// sessions the application never accepted still belong to the listener;
	// whether the library releases them is C15's subject, not this check's
	if tbl, _ := m.L.VerifSessions(); len(tbl) > 0 {
		for addr := range tbl {
			if sess := m.L.VerifSession(addr); sess != nil {
				sess.Close()
			}
		}
	}
	m.L.Close()
	m.conn.Close()
	for _, c := range m.cconns {
		c.Close()
	}
	m.s.Drain(5000)
	sim.DumpGoroutines("C13 accept shutdown")
}

func TestC13Accept(t *testing.T) {
	rec := hx.NewRecorder(t)
	rapid.Check(t, func(rt *rapid.T) {
		m := &c13a{rd: noDeadline}
		rapid.SyncTest(rt, func(rt *rapid.T) {
			m.s = sim.NewSessSim(0, 9)
			m.s.DefaultDelay = 3
			laddr := &net.UDPAddr{IP: net.IPv4(10, 0, 0, 9), Port: 9}
			m.conn = m.s.Net.Listen(laddr)
			m.L, _ = kcp.ServeConn(nil, 0, 0, m.conn)
			m.s.AfterEvent = m.invariant
			defer m.shutdown()
			guard := func(f func(*rapid.T)) func(*rapid.T) {
				return func(t *rapid.T) {
					if m.err != nil {
						t.Skip("failed already")
					}
					f(t)
					m.s.Quiesce()
				}
			}
			rt.Repeat(map[string]func(*rapid.T){
				"startAccept": guard(func(t *rapid.T) {
					if len(m.acceptors) >= 2 {
						t.Skip("enough")
					}
					a := &c13Call{kind: "accept", issued: m.s.Now()}
					a.c = m.s.Go("Accept", func() (int, error, any) { c, err := m.L.AcceptKCP(); return 0, err, c })
					m.acceptors = append(m.acceptors, a)
					m.log("start Accept")
					m.s.Quiesce()
					m.collect()
					if len(m.acceptors) >= 2 {
						m.multiBlocked++
					}
				}),
				"newPeer": guard(func(t *rapid.T) {
					if m.peers >= 6 || m.closed || m.readErr != nil {
						t.Skip("no more peers")
					}
					m.peers++
					addr := &net.UDPAddr{IP: net.IPv4(10, 0, 1, byte(m.peers)), Port: 1000 + m.peers}
					cc := m.s.Net.Listen(addr)
					c, _ := kcp.NewConn3(uint32(100+m.peers), laddr, nil, 0, 0, cc)
					c.Write([]byte{1})
					m.clients = append(m.clients, c)
					m.cconns = append(m.cconns, cc)
					m.log("peer %d connects", m.peers)
				}),
				"setDeadline": guard(func(t *rapid.T) {
					if len(m.acceptors) > 0 && hx.IsKnown(c13KeyAccept) {
						m.excluded++
						t.Skip("known finding class")
					}
					if len(m.acceptors) > 0 {
						m.deadlineWhileBlocked++
					}
					now := m.s.Now()
					var tm time.Time
					ms := noDeadline
					switch rapid.IntRange(0, 4).Draw(t, "dk") {
					case 0:
					case 1:
						ms = now - int64(rapid.IntRange(1, 100).Draw(t, "past"))
					default:
						ms = now + int64(rapid.SampledFrom([]int{0, 1, 9, 40, 300}).Draw(t, "in"))
					}
					if ms != noDeadline {
						tm = m.s.Start.Add(time.Duration(ms) * time.Millisecond)
					}
					if rapid.Bool().Draw(t, "viaSetDeadline") {
						m.L.SetDeadline(tm)
					} else {
						m.L.SetReadDeadline(tm)
					}
					m.rd, m.rdSetAt = ms, now
					if ms == noDeadline {
						m.log("listener deadline cleared")
					} else {
						m.log("listener deadline %d ms", ms)
					}
				}),
				"advance": func(t *rapid.T) {
					d := int64(rapid.SampledFrom([]int{1, 3, 10, 50, 400}).Draw(t, "ms"))
					m.log("advance %d ms", d)
					m.s.SleepTo(m.s.Now() + d)
				},
				"close": guard(func(t *rapid.T) {
					if m.closes >= 2 || (m.closes == 0 && rapid.IntRange(0, 2).Draw(t, "notYet") != 0) {
						t.Skip("not now")
					}
					if len(m.acceptors) > 0 && !m.closed {
						m.closeWhileBlocked++
					}
					err := m.L.Close()
					m.closes++
					m.closed = true
					m.log("listener Close -> %v", err)
					if (m.closes == 1) != (err == nil) {
						m.failf("listener Close no. %d returned %v", m.closes, err)
					}
				}),
				"socketError": guard(func(t *rapid.T) {
					if m.readErr != nil || rapid.IntRange(0, 2).Draw(t, "notYet") != 0 {
						t.Skip("not now")
					}
					if len(m.acceptors) > 0 {
						m.errWhileBlocked++
					}
					m.readErr = errInjectedRead
					m.conn.InjectReadError(errInjectedRead)
					m.log("inject socket read error")
				}),
				"": func(t *rapid.T) {
					m.invariant()
					if m.err != nil {
						t.Fatalf("C13 (Accept): %v\nhistory:\n  %s", m.err, joinLines(m.trace))
					}
				},
			})
		})
		var cl []string
		add := func(n int, c string) {
			if n > 0 {
				cl = append(cl, c)
			}
		}
		add(m.deadlineWhileBlocked, "deadline_set_while_blocked")
		add(m.closeWhileBlocked, "close_while_blocked")
		add(m.errWhileBlocked, "socket_error_while_blocked")
		add(m.multiBlocked, "several_callers_blocked")
		add(m.timeouts, "timeout_returned")
		add(m.accepted, "accepted")
		for i := 0; i < m.excluded; i++ {
			rec.Exclude(c13KeyAccept)
		}
		rec.Case(hx.Hash64(m.trace), m.deadlineWhileBlocked+m.closeWhileBlocked+m.errWhileBlocked+m.multiBlocked > 0, cl...)
		if rec.WantSample() {
			rec.Sample(map[string]any{"history": m.trace})
		}
	})
}

// TestC13KnownAcceptDeadline is the reproducer of the listed finding c13KeyAccept.
func TestC13KnownAcceptDeadline(t *testing.T) {
	rec := hx.NewRecorder(t)
	blocked := false
	bubble(t, func() {
		s := sim.NewSessSim(0, 9)
		conn := s.Net.Listen(&net.UDPAddr{IP: net.IPv4(10, 0, 0, 9), Port: 9})
		l, _ := kcp.ServeConn(nil, 0, 0, conn)
		c := s.Go("Accept", func() (int, error, any) { c, err := l.AcceptKCP(); return 0, err, c })
		s.Quiesce()
		l.SetReadDeadline(s.Start)
		s.SleepTo(50)
		blocked = !c.Done()
		if !blocked && !isTimeout(c.Err) {
			t.Errorf("Accept returned %v, want a timeout", c.Err)
		}
		l.Close()
		conn.Close()
		s.Drain(1000)
	})
	rec.Case(1, true, "reproducer")
	rec.Case(2, true, "reproducer")
	if blocked {
		rec.Finding(c13KeyAccept, "Accept blocked without deadline, SetReadDeadline(now): still blocked 50 ms later")
	}
}
