package props

// C09: every emitted datagram follows the documented layout so that an
// independent decoder reassembles the stream from the wire alone; FEC ids and
// types are consistent; parity is the RS code of the group; nonces are fresh.

import (
	"bytes"
	"fmt"
	"io"
	"os"
	"testing"
	"verif/harness/wire"

	kcp "github.com/xtaci/kcp-go/v5"
	"pgregory.net/rapid"
	"verif/harness/hx"
	"verif/harness/sim"
)

func TestC09Session(t *testing.T) {
	rec := hx.NewRecorder(t)
	rapid.Check(t, func(rt *rapid.T) {
		// a third of the cases transmit through the batch path of a real UDP socket
		// (sendmmsg), whose legal results include "took only the first k messages"
		batchSeed := uint64(0)
		if rapid.IntRange(0, 2).Draw(rt, "batchTx") == 0 {
			batchSeed = rapid.Uint64Range(1, 1<<62).Draw(rt, "batchSeed")
		}
		cfg := drawPairCfg(rt, pairGenOpts{ForceDialed: batchSeed != 0})
		if rapid.Bool().Draw(rt, "defaultEntropy") {
			cfg.EntropySeed = 0
		}
		fs := sim.DrawFateScript(rt, c01FateOpts)
		app := drawSessApps(rt, pairMSS(cfg), 30, 120_000)
		nOOB := 0
		if cfg.FEC[0][0] > 0 {
			nOOB = rapid.IntRange(0, 6).Draw(rt, "nOOB")
		}
		var obs [2]*wireObserver
		shortBatches := 0
		dup, dupCopies := 0, 0
		if batchSeed == 0 && !cfg.Listener && rapid.IntRange(0, 3).Draw(rt, "setdup") == 0 {
			dup = rapid.IntRange(1, 2).Draw(rt, "dup")
		}
		rapid.SyncTest(rt, func(rt *rapid.T) {
			s := sim.NewSessSim(cfg.ClockOff, cfg.EntropySeed)
			p, err := sim.NewPair(s, cfg, app)
			if err != nil {
				rt.Fatalf("setup: %v", err)
			}
			setPairLinks(s, p, fs)
			if batchSeed != 0 {
				s.Quiesce() // the receive loops have started (and chosen the portable path) by now
				for e := 0; e < 2; e++ {
					e := e
					var calls uint64
					p.Sess[e].VerifSetBatchWriter(func(dgs [][]byte) (int, error) {
						calls++
						k := 1 + int(hx.Hash64(batchSeed, e, calls)%uint64(len(dgs)))
						if hx.Hash64(batchSeed, e, calls, "all")%3 == 0 {
							k = len(dgs)
						}
						if k < len(dgs) {
							shortBatches++
						}
						for _, b := range dgs[:k] {
							p.Conn[e].WriteTo(b, p.Addr[1-e])
						}
						return k, nil
					})
				}
			}
			for e := 0; e < 2; e++ {
				e := e
				obs[e] = newWireObserver(p.Crypto, cfg.FEC[e], cfg.Conv, cfg.StreamID[e], cfg.Opts[e].Stream)
				obs[e].written = func() int64 { a, _, _ := p.Progress(e); return a + 1<<40 } // accepted bytes are checked by C01; a Write in progress may already be on the wire
				obs[e].clock = s.Now
			}
			// SetDUP (a switch kept for testing) makes the session send every packet
			// dup+1 times: the copies must be exact copies, frame and all
			var lastDg [2][]byte
			var copies [2]int
			if dup > 0 {
				for e := 0; e < 2; e++ {
					if p.Sess[e] != nil {
						p.Sess[e].SetDUP(dup)
					}
				}
			}
			s.OnSent = func(d *sim.Sent, from, to string, f *sim.Fate) error {
				e := 0
				if from == p.Addr[1].String() {
					e = 1
				}
				if dup > 0 && copies[e] < dup && bytes.Equal(d.Data, lastDg[e]) {
					copies[e]++
					dupCopies++
					return nil
				}
				lastDg[e], copies[e] = append(lastDg[e][:0], d.Data...), 0
				return obs[e].Observe(d.Data)
			}
			// a few out-of-band packets interleaved with the stream
			for i := 0; i < nOOB; i++ {
				at := int64(rapid.IntRange(0, 3000).Draw(rt, "oobAt"))
				s.WakeAt(at)
			}
			oobSent := 0
			p.OnRead = func(r, n int, err error) {
				if oobSent < nOOB && p.Sess[0] != nil {
					oobSent++
					p.Sess[0].SendOOB([]byte{byte(oobSent), 2, 3})
				}
			}
			err = p.Run(fs.EndTime()+600_000, false)
			p.Finish(nil)
			if os.Getenv("VERIF_TRACE") != "" {
				for _, g := range sim.BubbleGoroutines() {
					fmt.Println("LEFT:", g)
				}
			}
			if err != nil {
				rt.Fatalf("C09: %v\ncase: %+v", err, describePair(cfg, fs, app))
			}
		})
		cl := []string{"cipher_" + cfg.Cipher}
		tot := func(f func(o *wireObserver) int) int { return f(obs[0]) + f(obs[1]) }
		retr := tot(func(o *wireObserver) int { return o.Retrans })
		multi := tot(func(o *wireObserver) int { return o.MultiSeg })
		par := tot(func(o *wireObserver) int { return o.Parity })
		oob := tot(func(o *wireObserver) int { return o.OOB })
		grp := tot(func(o *wireObserver) int { return o.GroupsChecked })
		if retr > 0 {
			cl = append(cl, "retransmission_on_wire")
		}
		if multi > 0 {
			cl = append(cl, "multi_segment_datagram")
		}
		if par > 0 {
			cl = append(cl, "parity_packet")
		}
		if oob > 0 {
			cl = append(cl, "oob_packet")
		}
		if grp > 0 {
			cl = append(cl, "rs_parity_recomputed")
		}
		if cfg.FEC[0][0] > 0 {
			cl = append(cl, "fec_on")
		}
		if cfg.EntropySeed == 0 {
			cl = append(cl, "library_entropy")
		}
		if shortBatches > 0 {
			cl = append(cl, "batch_transmit_with_short_writes")
		}
		if dupCopies > 0 {
			cl = append(cl, "setdup_copies_on_the_wire")
		}
		rec.Add("n_datagrams_decoded", int64(tot(func(o *wireObserver) int { return o.Datagrams })))
		rec.Add("n_fec_groups_recomputed", int64(grp))
		nontrivial := retr > 0 && multi > 0 && (cfg.FEC[0][0] == 0 || par > 0)
		rec.Case(hx.Hash64(describePair(cfg, fs, app)), nontrivial, cl...)
		if rec.WantSample() {
			dd := describePair(cfg, fs, app)
			dd["datagrams"] = tot(func(o *wireObserver) int { return o.Datagrams })
			dd["fec_groups_recomputed"] = grp
			rec.Sample(dd)
		}
	})
}

var _ = kcp.IKCP_OVERHEAD

// TestC09Entropy: the library's nonce sources never repeat a 16-byte value in
// a long draw (a repeated nonce would make two datagrams of equal content
// identical).
func TestC09Entropy(t *testing.T) {
	rec := hx.NewRecorder(t)
	n := hx.EnvInt("C09_ENTROPY_DRAWS", 1<<18)
	for name, src := range map[string]io.Reader{"aes": kcp.NewEntropyAES(), "chacha8": kcp.NewEntropyChacha8(), "default": kcp.NewEntropy()} {
		seen := make(map[[16]byte]struct{}, n)
		var b [16]byte
		// the source re-seeds itself once in 2^24 draws: a third of the way
		// through, it is placed just before that moment
		for i := 0; i < n; i++ {
			if i == n/3 {
				kcp.VerifEntropySetCount(src, kcp.VerifReseedInterval-5)
			}
			if k, err := src.Read(b[:]); err != nil || k != 16 {
				t.Fatalf("entropy %s: Read returned %d, %v", name, k, err)
			}
			if _, dup := seen[b]; dup {
				hx.Fail(t, map[string]any{"source": name, "draw": i}, "C09: entropy source %s repeated the 16-byte value %x at draw %d", name, b, i)
			}
			seen[b] = struct{}{}
		}
		rec.Bulk(int64(n), int64(n))
	}
	rec.Class("nonce_draws", int64(3*n))
	rec.Sample(map[string]any{"sources": []string{"NewEntropyAES", "NewEntropyChacha8", "NewEntropy"}, "draws_each": n, "bytes_per_draw": 16})
}

// TestC09EncoderIDs: the FEC encoder alone, from any position including the
// last groups before the wrap value, with parity blocks skipped at drawn
// groups: every emitted id is below the wrap value, follows its predecessor by
// +1 (or +p+1 after a skipped parity block) modulo the wrap value, its type
// matches its position in the d+p cycle, and OOB packets consume no id.
func TestC09EncoderIDs(t *testing.T) {
	rec := hx.NewRecorder(t)
	rapid.Check(t, func(rt *rapid.T) {
		d, p := drawRatio(rt, "r.", false)
		n := d + p
		paws := pawsOf(n)
		groupsBefore := rapid.IntRange(0, 4).Draw(rt, "groupsBeforeWrap")
		start := paws - uint32(n*groupsBefore)
		if rapid.IntRange(0, 3).Draw(rt, "elsewhere") == 0 {
			start = rapid.Uint32Range(0, paws/uint32(n)-1).Draw(rt, "group") * uint32(n)
		}
		st := newFECStream(d, p, start%paws, 0x909)
		groups := rapid.IntRange(1, 8).Draw(rt, "groups")
		obs := newWireObserver(mustCrypto("null"), [2]int{d, p}, 0x909, 0, true)
		skipped, wrapped := 0, false
		var last uint32
		have := false
		for g := 0; g < groups; g++ {
			skip := rapid.IntRange(0, 2).Draw(rt, "skipParity") == 0
			if skip {
				skipped++
			}
			if rapid.IntRange(0, 3).Draw(rt, "oob") == 0 {
				b := make([]byte, 8+4+3)
				b[8], b[9] = 0x09, 0x09 // the session writes its conv behind the FEC header
				st.enc.EncodeOOB(b)
				if err := obs.Observe(b); err != nil {
					rt.Fatalf("C09 (encoder, d=%d p=%d start=%d): OOB packet: %v", d, p, start, err)
				}
			}
			for _, pk := range st.group([]int{30, 24, 400}, skip) {
				if have && pk.Seq < last {
					wrapped = true
				}
				last, have = pk.Seq, true
				// only the FEC framing is checked here: the stream content is not the position-dependent test stream
				f, err := wire.ParseFrame(pk.Raw, true)
				if err == nil {
					err = obs.fecID(&f)
				}
				if err != nil {
					rt.Fatalf("C09 (encoder, d=%d p=%d start=%d, group %d, parity skipped in %d groups so far): %v", d, p, start, g, skipped, err)
				}
			}
		}
		cl := []string{"encoder_cases"}
		if wrapped {
			cl = append(cl, "wrapped")
		}
		if skipped > 0 {
			cl = append(cl, "parity_skipped")
		}
		rec.Case(hx.Hash64(d, p, start, groups, skipped), wrapped && skipped > 0, cl...)
		if rec.WantSample() {
			rec.Sample(map[string]any{"ratio": []int{d, p}, "start": start, "groups": groups, "groups_with_skipped_parity": skipped})
		}
	})
}

func mustCrypto(name string) *wire.Crypto {
	c, err := wire.NewCrypto(name, make([]byte, wire.KeyLen(name)))
	if err != nil {
		panic(err)
	}
	return c
}
