// Package hx holds what every property check shares: run parameters taken
// from the environment, the per-test statistics recorder that becomes the
// evidence file, and the known-findings lookup.
package hx

import (
	"bufio"
	"encoding/json"
	"fmt"
	"hash/fnv"
	"os"
	"path/filepath"
	"sort"
	"strconv"
	"strings"
	"sync"
	"testing"
)

// Tier is "quick" or "thorough".
func Tier() string {
	if v := os.Getenv("VERIF_TIER"); v != "" {
		return v
	}
	return "quick"
}

// Thorough reports whether the thorough tier is running.
func Thorough() bool { return Tier() == "thorough" }

// EnvInt reads an integer parameter.
func EnvInt(name string, def int) int {
	if v := os.Getenv(name); v != "" {
		if n, err := strconv.Atoi(v); err == nil {
			return n
		}
	}
	return def
}

// Shard returns this process's shard index and the shard count.
func Shard() (int, int) { return EnvInt("VERIF_SHARD", 0), max(1, EnvInt("VERIF_NSHARDS", 1)) }

// Seed is the driver-derived seed for non-rapid enumeration order choices.
func Seed() uint64 {
	if v := os.Getenv("VERIF_JOBSEED"); v != "" {
		if n, err := strconv.ParseUint(v, 10, 64); err == nil {
			return n
		}
	}
	return 1
}

// Hash64 hashes a canonical descriptor.
func Hash64(parts ...any) uint64 {
	h := fnv.New64a()
	for _, p := range parts {
		fmt.Fprintf(h, "%v|", p)
	}
	return h.Sum64()
}

// Recorder counts what a test explored. It is written to
// $VERIF_OUT/<test>.stats.json when the test ends.
type Recorder struct {
	mu          sync.Mutex
	t           testing.TB
	Test        string            `json:"test"`
	Evals       int64             `json:"evaluations"`
	NonTrivial  int64             `json:"nontrivial"`
	Distinct    int64             `json:"distinct_nontrivial"`
	Classes     map[string]int64  `json:"classes"`
	Excluded    map[string]int64  `json:"excluded"`
	Samples     []any             `json:"samples"`
	Known       map[string]string `json:"known"`
	Extra       map[string]any    `json:"extra"`
	Exhaustive  bool              `json:"exhaustive"`
	seen        map[uint64]struct{}
	maxSamples  int
	sampleEvery int64
}

// NewRecorder creates the recorder of test t.
func NewRecorder(t testing.TB) *Recorder {
	r := &Recorder{t: t, Test: t.Name(), Classes: map[string]int64{}, Excluded: map[string]int64{},
		Known: map[string]string{}, Extra: map[string]any{}, seen: map[uint64]struct{}{}, maxSamples: 4, sampleEvery: 1}
	t.Cleanup(r.Write)
	return r
}

// Case records one generated case: key identifies it for distinctness,
// nontrivial is the property's stated rule, classes feed the histogram.
func (r *Recorder) Case(key uint64, nontrivial bool, classes ...string) {
	if r == nil {
		return
	}
	r.mu.Lock()
	defer r.mu.Unlock()
	r.Evals++
	if nontrivial {
		r.NonTrivial++
		if len(r.seen) < 4_000_000 {
			if _, ok := r.seen[key]; !ok {
				r.seen[key] = struct{}{}
				r.Distinct++
			}
		}
	}
	for _, c := range classes {
		r.Classes[c]++
	}
}

// Bulk adds counts produced by an enumeration that does its own distinctness
// accounting (every enumerated point is distinct by construction).
func (r *Recorder) Bulk(evals, nontrivialDistinct int64) {
	if r == nil {
		return
	}
	r.mu.Lock()
	defer r.mu.Unlock()
	r.Evals += evals
	r.NonTrivial += nontrivialDistinct
	r.Distinct += nontrivialDistinct
}

// Class bumps a histogram class by n.
func (r *Recorder) Class(c string, n int64) {
	if r == nil {
		return
	}
	r.mu.Lock()
	r.Classes[c] += n
	r.mu.Unlock()
}

// Exclude counts a case left out by construction (known finding class).
func (r *Recorder) Exclude(c string) {
	if r == nil {
		return
	}
	r.mu.Lock()
	r.Excluded[c]++
	r.mu.Unlock()
}

// Sample keeps a few written-out cases (spread over the run).
func (r *Recorder) Sample(v any) {
	if r == nil {
		return
	}
	r.mu.Lock()
	defer r.mu.Unlock()
	if len(r.Samples) < r.maxSamples {
		r.Samples = append(r.Samples, v)
		return
	}
	// keep later cases too: replace a slot with decreasing probability
	r.sampleEvery++
	if r.sampleEvery%97 == 0 {
		r.Samples[int(r.sampleEvery/97)%r.maxSamples] = v
	}
}

// WantSample tells whether building a sample is worth it right now.
func (r *Recorder) WantSample() bool {
	if r == nil {
		return false
	}
	r.mu.Lock()
	defer r.mu.Unlock()
	return len(r.Samples) < r.maxSamples || (r.sampleEvery+1)%97 == 0
}

// Set stores an extra evidence value.
func (r *Recorder) Set(k string, v any) {
	if r == nil {
		return
	}
	r.mu.Lock()
	r.Extra[k] = v
	r.mu.Unlock()
}

// Add adds to an extra numeric evidence value.
func (r *Recorder) Add(k string, n int64) {
	if r == nil {
		return
	}
	r.mu.Lock()
	cur, _ := r.Extra[k].(int64)
	r.Extra[k] = cur + n
	r.mu.Unlock()
}

// Write stores the statistics file.
func (r *Recorder) Write() {
	dir := os.Getenv("VERIF_OUT")
	if dir == "" {
		return
	}
	r.mu.Lock()
	defer r.mu.Unlock()
	b, err := json.MarshalIndent(r, "", " ")
	if err != nil {
		fmt.Fprintf(os.Stderr, "stats marshal: %v\n", err)
		return
	}
	name := strings.ReplaceAll(r.Test, "/", "_")
	_ = os.WriteFile(filepath.Join(dir, name+".stats.json"), b, 0o644)
}

// ---------------------------------------------------------------- known findings

type knownEntry struct {
	Property string `json:"property"`
	Key      string `json:"key"`
	Status   string `json:"status"`
	What     string `json:"what"`
}

var (
	knownOnce sync.Once
	knownMap  map[string]knownEntry
)

func loadKnown() {
	knownMap = map[string]knownEntry{}
	p := os.Getenv("VERIF_KNOWN")
	if p == "" {
		p = "/verif/known_findings.txt"
	}
	f, err := os.Open(p)
	if err != nil {
		return
	}
	defer f.Close()
	sc := bufio.NewScanner(f)
	sc.Buffer(make([]byte, 1<<20), 1<<20)
	for sc.Scan() {
		line := strings.TrimSpace(sc.Text())
		// known: property=<id> key=<key> <what>
		if !strings.HasPrefix(line, "known:") {
			continue
		}
		f := strings.Fields(strings.TrimPrefix(line, "known:"))
		var e knownEntry
		e.Status = "known"
		for i, w := range f {
			if strings.HasPrefix(w, "property=") {
				e.Property = strings.TrimPrefix(w, "property=")
			} else if strings.HasPrefix(w, "key=") {
				e.Key = strings.TrimPrefix(w, "key=")
				e.What = strings.Join(f[i+1:], " ")
				break
			}
		}
		if e.Key != "" {
			knownMap[e.Key] = e
		}
	}
}

// IsKnown reports whether key is listed as a known (unrepaired) finding; the
// main generators use it to exclude that scenario class by construction.
func IsKnown(key string) bool {
	knownOnce.Do(loadKnown)
	e, ok := knownMap[key]
	return ok && e.Status == "known"
}

// Finding is called by a reproducer whose scenario still fails. If the key is
// a listed known finding it is recorded (the driver prints KNOWN-FINDING) and
// the test goes on; otherwise the test fails: a violation.
func (r *Recorder) Finding(key, what string) {
	if IsKnown(key) {
		r.mu.Lock()
		r.Known[key] = what
		r.mu.Unlock()
		return
	}
	r.t.Fatalf("finding %s: %s", key, what)
}

// ---------------------------------------------------------------- plain-test failures

// Fail writes a replay descriptor for a non-rapid test and fails it.
func Fail(t testing.TB, replay any, format string, args ...any) {
	t.Helper()
	if dir := os.Getenv("VERIF_OUT"); dir != "" {
		b, _ := json.MarshalIndent(map[string]any{"test": t.Name(), "replay": replay, "message": fmt.Sprintf(format, args...)}, "", " ")
		name := strings.ReplaceAll(t.Name(), "/", "_")
		_ = os.WriteFile(filepath.Join(dir, "fail-"+name+".json"), b, 0o644)
	}
	t.Fatalf(format, args...)
}

// ReplayFile returns the replay descriptor a plain test should re-run, if any.
func ReplayFile(v any) bool {
	p := os.Getenv("VERIF_REPLAY")
	if p == "" {
		return false
	}
	b, err := os.ReadFile(p)
	if err != nil {
		return false
	}
	var w struct {
		Replay json.RawMessage `json:"replay"`
	}
	if json.Unmarshal(b, &w) != nil {
		return false
	}
	return json.Unmarshal(w.Replay, v) == nil
}

// SortedKeys is a small helper for deterministic iteration.
func SortedKeys[V any](m map[string]V) []string {
	ks := make([]string, 0, len(m))
	for k := range m {
		ks = append(ks, k)
	}
	sort.Strings(ks)
	return ks
}
