// Package sim holds the simulated datagram network and the two engines that
// drive the real kcp-go code over it inside a testing/synctest bubble:
// CoreSim (two raw KCP cores, one goroutine) and SessSim (real UDPSession /
// Listener over simulated PacketConns, lock-step event loop).
package sim

import (
	"fmt"

	"pgregory.net/rapid"
)

// Fate is what the network does with one emitted datagram.
type Fate struct {
	Copies int      // 0 = dropped, 1 = delivered once, k>1 = duplicated
	Delay  [3]int32 // one-way delay in ms of each copy
}

func (f Fate) String() string {
	if f.Copies == 0 {
		return "drop"
	}
	s := fmt.Sprintf("x%d@", f.Copies)
	for i := 0; i < f.Copies; i++ {
		s += fmt.Sprintf("%d,", f.Delay[i])
	}
	return s
}

// Regime kinds.
const (
	RClean = iota
	RLoss
	ROutage
	RDupStorm
	RReorder
	RMix
)

var regimeNames = []string{"clean", "loss", "outage", "dup", "reorder", "mix"}

// Regime describes the fates of Len consecutive datagrams of one direction.
type Regime struct {
	Kind     int
	Len      int
	Permille int // loss / dup probability
	MaxDelay int // ms
}

func (r Regime) String() string {
	return fmt.Sprintf("%s(n=%d,p=%d‰,d<=%dms)", regimeNames[r.Kind], r.Len, r.Permille, r.MaxDelay)
}

// Outage drops everything emitted in [From,To) ms of virtual time in the
// directions of Mask (bit 0: A->B, bit 1: B->A).
type Outage struct {
	From, To int64
	Mask     int
}

// FateScript is a finite fault history followed by a fair network.
type FateScript struct {
	Explicit  [2][]Fate   // fates of the first datagrams of each direction
	Regimes   [2][]Regime // then regime after regime
	Outages   []Outage
	BaseDelay [2]int32 // one-way delay of the fair network
	Seed      uint64
}

func mix64(x uint64) uint64 {
	x ^= x >> 33
	x *= 0xff51afd7ed558ccd
	x ^= x >> 33
	x *= 0xc4ceb9fe1a85ec53
	x ^= x >> 33
	return x
}

// Len is the number of datagrams of direction dir whose fate is scripted.
func (fs *FateScript) Len(dir int) int {
	n := len(fs.Explicit[dir])
	for _, r := range fs.Regimes[dir] {
		n += r.Len
	}
	return n
}

// EndTime is when the last time-based outage ends.
func (fs *FateScript) EndTime() int64 {
	var e int64
	for _, o := range fs.Outages {
		e = max(e, o.To)
	}
	return e
}

// FateFor returns the fate of the idx-th datagram of direction dir emitted at
// virtual time now (ms since the start of the run).
func (fs *FateScript) FateFor(dir, idx int, now int64) Fate {
	for _, o := range fs.Outages {
		if o.Mask&(1<<dir) != 0 && now >= o.From && now < o.To {
			return Fate{}
		}
	}
	if idx < len(fs.Explicit[dir]) {
		return fs.Explicit[dir][idx]
	}
	k := idx - len(fs.Explicit[dir])
	for _, r := range fs.Regimes[dir] {
		if k < r.Len {
			return fs.regimeFate(r, dir, idx)
		}
		k -= r.Len
	}
	return Fate{Copies: 1, Delay: [3]int32{fs.BaseDelay[dir]}}
}

func (fs *FateScript) regimeFate(r Regime, dir, idx int) Fate {
	h := mix64(fs.Seed ^ uint64(dir)<<40 ^ uint64(idx)*0x9e3779b97f4a7c15)
	roll := int(h % 1000)
	base := fs.BaseDelay[dir]
	delay := func(k uint) int32 {
		if r.MaxDelay <= 0 {
			return base
		}
		return int32(mix64(h+uint64(k)*77) % uint64(r.MaxDelay+1))
	}
	switch r.Kind {
	case RClean:
		return Fate{Copies: 1, Delay: [3]int32{base}}
	case RLoss:
		if roll < r.Permille {
			return Fate{}
		}
		return Fate{Copies: 1, Delay: [3]int32{base + delay(1)%8}}
	case ROutage:
		return Fate{}
	case RDupStorm:
		if roll < r.Permille {
			c := 2 + int(h>>20)%2
			return Fate{Copies: c, Delay: [3]int32{delay(1), delay(2), delay(3)}}
		}
		return Fate{Copies: 1, Delay: [3]int32{delay(1)}}
	case RReorder:
		return Fate{Copies: 1, Delay: [3]int32{delay(1)}}
	default: // RMix
		switch {
		case roll < r.Permille:
			return Fate{}
		case roll < r.Permille+100:
			return Fate{Copies: 2, Delay: [3]int32{delay(1), delay(2)}}
		default:
			return Fate{Copies: 1, Delay: [3]int32{delay(1)}}
		}
	}
}

// Describe renders the script for samples and failure reports.
func (fs *FateScript) Describe() map[string]any {
	d := map[string]any{"base_delay_ms": fs.BaseDelay, "seed": fs.Seed}
	for dir := 0; dir < 2; dir++ {
		var ex []string
		for _, f := range fs.Explicit[dir] {
			ex = append(ex, f.String())
		}
		var rs []string
		for _, r := range fs.Regimes[dir] {
			rs = append(rs, r.String())
		}
		d[fmt.Sprintf("dir%d_explicit", dir)] = ex
		d[fmt.Sprintf("dir%d_regimes", dir)] = rs
	}
	if len(fs.Outages) > 0 {
		d["outages"] = fs.Outages
	}
	return d
}

// FateOpts bounds the generator.
type FateOpts struct {
	MaxExplicit int
	MaxRegimes  int
	MaxRegLen   int
	MaxDelay    int
	MaxOutageMs int64
	MaxOutages  int
	MaxLossPm   int
	Clean       bool // no faults at all, equal constant delay
}

// DrawFate draws one explicit fate.
func DrawFate(t *rapid.T, maxDelay int, label string) Fate {
	k := rapid.IntRange(0, 9).Draw(t, label+"kind")
	d := func(l string) int32 {
		return int32(rapid.SampledFrom([]int{0, 1, 5, 20, 60, 150, 400, maxDelay}).Draw(t, label+l))
	}
	switch {
	case k <= 2:
		return Fate{}
	case k <= 7:
		return Fate{Copies: 1, Delay: [3]int32{d("d0")}}
	case k == 8:
		return Fate{Copies: 2, Delay: [3]int32{d("d0"), d("d1")}}
	default:
		return Fate{Copies: 3, Delay: [3]int32{d("d0"), d("d1"), d("d2")}}
	}
}

// DrawFateScript draws a finite fault history.
func DrawFateScript(t *rapid.T, o FateOpts) *FateScript {
	fs := &FateScript{}
	bd := int32(rapid.SampledFrom([]int{0, 1, 5, 10, 20, 40}).Draw(t, "baseDelay"))
	fs.BaseDelay = [2]int32{bd, bd}
	if rapid.IntRange(0, 3).Draw(t, "asymDelay") == 0 {
		fs.BaseDelay[1] = int32(rapid.SampledFrom([]int{0, 1, 5, 10, 20, 40}).Draw(t, "baseDelayBA"))
	}
	if o.Clean {
		return fs
	}
	fs.Seed = rapid.Uint64().Draw(t, "fateSeed")
	for dir := 0; dir < 2; dir++ {
		n := rapid.IntRange(0, o.MaxExplicit).Draw(t, fmt.Sprintf("nExplicit%d", dir))
		for i := 0; i < n; i++ {
			fs.Explicit[dir] = append(fs.Explicit[dir], DrawFate(t, o.MaxDelay, fmt.Sprintf("f%d_%d_", dir, i)))
		}
		nr := rapid.IntRange(0, o.MaxRegimes).Draw(t, fmt.Sprintf("nRegimes%d", dir))
		for i := 0; i < nr; i++ {
			r := Regime{
				Kind:     rapid.IntRange(0, 5).Draw(t, "rkind"),
				Len:      rapid.IntRange(1, o.MaxRegLen).Draw(t, "rlen"),
				Permille: rapid.SampledFrom([]int{10, 50, 100, 200, 300, 450, 600}).Draw(t, "rpm"),
				MaxDelay: rapid.SampledFrom([]int{0, 10, 50, 200, o.MaxDelay}).Draw(t, "rmaxdelay"),
			}
			if o.MaxLossPm > 0 {
				r.Permille = min(r.Permille, o.MaxLossPm)
			}
			if r.Kind == ROutage {
				r.Len = min(r.Len, 15)
			}
			fs.Regimes[dir] = append(fs.Regimes[dir], r)
		}
	}
	if o.MaxOutages > 0 {
		no := rapid.IntRange(0, o.MaxOutages).Draw(t, "nOutages")
		for i := 0; i < no; i++ {
			from := int64(rapid.IntRange(0, 20000).Draw(t, "outFrom"))
			ln := int64(rapid.SampledFrom([]int{100, 500, 2000, 10000, 60000, 600000}).Draw(t, "outLen"))
			ln = min(ln, o.MaxOutageMs)
			fs.Outages = append(fs.Outages, Outage{From: from, To: from + ln, Mask: rapid.IntRange(1, 3).Draw(t, "outMask")})
		}
	}
	return fs
}

// Payload is the position-dependent content of stream id at offset off: any
// loss, duplication, reordering or alteration shows at the first wrong byte.
func Payload(id uint32, off int64) byte {
	x := uint64(off)*0x9e3779b97f4a7c15 + uint64(id)*0xbf58476d1ce4e5b9
	x ^= x >> 29
	return byte(x>>8) ^ byte(x>>40)
}

// FillPayload fills b with the stream bytes starting at off.
func FillPayload(b []byte, id uint32, off int64) {
	for i := range b {
		b[i] = Payload(id, off+int64(i))
	}
}

// CheckPayload returns the index of the first byte of b that differs from the
// stream content at off, or -1.
func CheckPayload(b []byte, id uint32, off int64) int {
	for i := range b {
		if b[i] != Payload(id, off+int64(i)) {
			return i
		}
	}
	return -1
}
