package sim

import (
	"container/heap"
	"fmt"
	"sync"
	"sync/atomic"
	"testing/synctest"
	"time"

	kcp "github.com/xtaci/kcp-go/v5"
	"verif/harness/wire"
)

// FreeRun is the free-running variant of the session engine: the same real
// sessions, simulated sockets and fate scripts as SessSim/Pair, inside a
// synctest bubble (virtual time), but WITHOUT the lock-step loop: application
// goroutines, the sessions' read loops and post-processors, a scheduler-runner
// goroutine and one goroutine per datagram in flight all run concurrently, and
// the Go scheduler picks the interleaving. Only schedule-insensitive oracles
// are asserted: content prefix at every Read, completion, no leaked goroutine.
type FreeRun struct {
	Cfg   PairCfg
	Fates *FateScript
	App   [2]AppScript

	Sent, Dropped atomic.Int64
	Reads         atomic.Int64
	err           atomic.Value // error
	linkIdx       [2]atomic.Int64
	start         time.Time
}

func (f *FreeRun) fail(format string, a ...any) {
	f.err.CompareAndSwap(nil, fmt.Errorf("t=%dms: %s", time.Since(f.start)/time.Millisecond, fmt.Sprintf(format, a...)))
}

// Err returns the first failure.
func (f *FreeRun) Err() error {
	if e, ok := f.err.Load().(error); ok {
		return e
	}
	return nil
}

type freeTaskHeap []kcp.VerifTask

func (h freeTaskHeap) Len() int           { return len(h) }
func (h freeTaskHeap) Less(i, j int) bool { return h[i].At.Before(h[j].At) }
func (h freeTaskHeap) Swap(i, j int)      { h[i], h[j] = h[j], h[i] }
func (h *freeTaskHeap) Push(x any)        { *h = append(*h, x.(kcp.VerifTask)) }
func (h *freeTaskHeap) Pop() any {
	o := *h
	n := len(o)
	x := o[n-1]
	*h = o[:n-1]
	return x
}

// Run executes the case; it must be called inside a bubble. It returns whether
// both streams completed within the horizon (virtual) and the first failure.
func (f *FreeRun) Run(horizon time.Duration) (completed bool, err error) {
	f.start = time.Now()
	sched := kcp.VerifNewDetachedSched()
	kcp.SystemTimedSched = sched
	kcp.VerifSetClock(f.Cfg.ClockOff)
	if f.Cfg.EntropySeed != 0 {
		kcp.SetEntropy(NewSeededEntropy(f.Cfg.EntropySeed))
	} else {
		kcp.SetEntropy(kcp.NewEntropy())
	}
	n := NewNet()
	crypto, cerr := wire.NewCrypto(f.Cfg.Cipher, f.Cfg.Key)
	if cerr != nil {
		return false, cerr
	}
	addr := [2]*PConn{}
	a0, a1 := mkAddr(f.Cfg.StrAddr, 1, 40001), mkAddr(f.Cfg.StrAddr, 2, 29900)
	addr[0], addr[1] = n.Listen(a0), n.Listen(a1)
	stop := make(chan struct{})
	var bg sync.WaitGroup
	var netMu sync.Mutex
	netClosed := false
	// the network: every written datagram gets its fate at once and travels on its own goroutine
	n.OnWrite = func(c *PConn, to string, data []byte) {
		dir := 0
		if c == addr[1] {
			dir = 1
		}
		f.Sent.Add(1)
		idx := int(f.linkIdx[dir].Add(1) - 1)
		fate := f.Fates.FateFor(dir, idx, int64(time.Since(f.start)/time.Millisecond))
		if fate.Copies == 0 {
			f.Dropped.Add(1)
			return
		}
		// Add must not run concurrently with the final Wait: sessions still
		// transmit while they are being closed
		netMu.Lock()
		if netClosed {
			netMu.Unlock()
			return
		}
		bg.Add(fate.Copies)
		netMu.Unlock()
		for k := 0; k < fate.Copies; k++ {
			d := time.Duration(fate.Delay[k]) * time.Millisecond
			cp := append([]byte(nil), data...)
			go func() {
				defer bg.Done()
				if d > 0 {
					select {
					case <-time.After(d):
					case <-stop:
						return
					}
				}
				n.Deliver(to, c.addr, cp)
			}()
		}
	}
	// the scheduler runner: executes the sessions' update callbacks at their deadlines
	bg.Add(1)
	go func() {
		defer bg.Done()
		var h freeTaskHeap
		for {
			for _, t := range sched.VerifTake() {
				heap.Push(&h, t)
			}
			wait := time.Millisecond
			if len(h) > 0 {
				if d := time.Until(h[0].At); d <= 0 {
					heap.Pop(&h).(kcp.VerifTask).F()
					continue
				} else if d < wait {
					wait = d
				}
			}
			select {
			case <-stop:
				// run out what closed sessions still have queued (they do not re-arm)
				for _, t := range sched.VerifTake() {
					heap.Push(&h, t)
				}
				for len(h) > 0 {
					heap.Pop(&h).(kcp.VerifTask).F()
					for _, t := range sched.VerifTake() {
						heap.Push(&h, t)
					}
				}
				return
			case <-time.After(wait):
			}
		}
	}()
	blk := func() kcp.BlockCrypt { b, _ := NewBlockCrypt(f.Cfg.Cipher, f.Cfg.Key); return b }
	var sess [2]*kcp.UDPSession
	var L *kcp.Listener
	sess[0], _ = kcp.NewConn3(f.Cfg.Conv, a1, blk(), f.Cfg.FEC[0][0], f.Cfg.FEC[0][1], addr[0])
	if e := ApplyOpts(sess[0], f.Cfg.Opts[0]); e != nil {
		close(stop)
		return false, e
	}
	ready := make(chan struct{}) // closed when the server side session exists
	if f.Cfg.Listener {
		L, _ = kcp.ServeConn(blk(), f.Cfg.FEC[1][0], f.Cfg.FEC[1][1], addr[1])
		bg.Add(1)
		go func() {
			defer bg.Done()
			c, err := L.AcceptKCP()
			if err != nil {
				return
			}
			ApplyOpts(c, f.Cfg.Opts[1])
			sess[1] = c
			close(ready)
		}()
	} else {
		sess[1], _ = kcp.NewConn3(f.Cfg.Conv, a0, blk(), f.Cfg.FEC[1][0], f.Cfg.FEC[1][1], addr[1])
		ApplyOpts(sess[1], f.Cfg.Opts[1])
		close(ready)
	}
	mss := [2]int{}
	for e := 0; e < 2; e++ {
		mss[e] = SessionMSS(f.Cfg.Opts[e].MTU, crypto, f.Cfg.FEC[e][0] > 0 && f.Cfg.FEC[e][1] > 0)
	}
	var apps sync.WaitGroup
	var offered [2]atomic.Int64
	for w := 0; w < 2; w++ {
		w := w
		r := 1 - w
		var total int64
		for _, x := range f.App[w].Writes {
			total += int64(x)
		}
		// writer
		apps.Add(1)
		go func() {
			defer apps.Done()
			if w == 1 {
				select {
				case <-ready:
				case <-stop:
					return
				}
			}
			var off int64
			for i, sz := range f.App[w].Writes {
				if i < len(f.App[w].GapMs) && f.App[w].GapMs[i] > 0 {
					time.Sleep(time.Duration(f.App[w].GapMs[i]) * time.Millisecond)
				}
				b := make([]byte, sz)
				FillPayload(b, f.Cfg.StreamID[w], off)
				offered[w].Add(int64(sz))
				var k int
				var err error
				if sizes := f.App[w].VecCuts(i, sz); sizes != nil {
					v := make([][]byte, 0, len(sizes))
					rest := b
					for _, n := range sizes {
						v = append(v, rest[:n:n])
						rest = rest[n:]
					}
					k, err = sess[w].WriteBuffers(v)
				} else {
					k, err = sess[w].Write(b)
				}
				if err != nil {
					select {
					case <-stop: // closed at the horizon
					default:
						f.fail("Write(%d) at end %d failed: %v", sz, w, err)
					}
					return
				}
				if k != sz {
					f.fail("Write(%d) at end %d returned %d", sz, w, k)
					return
				}
				off += int64(sz)
			}
		}()
		// reader
		apps.Add(1)
		go func() {
			defer apps.Done()
			if r == 1 {
				select {
				case <-ready:
				case <-stop:
					return
				}
			}
			var got int64
			ri, pi := 0, 0
			buf := make([]byte, 65536)
			for got < total {
				if pi < len(f.App[w].Pauses) && got >= f.App[w].Pauses[pi].AfterBytes {
					time.Sleep(time.Duration(min(f.App[w].Pauses[pi].Ms, 5000)) * time.Millisecond)
					pi++
				}
				want := 65536
				if len(f.App[w].ReadBufs) > 0 {
					want = f.App[w].ReadBufs[ri%len(f.App[w].ReadBufs)]
					ri++
				}
				k, err := sess[r].Read(buf[:want])
				if err != nil {
					select {
					case <-stop:
					default:
						f.fail("Read at end %d failed: %v", r, err)
					}
					return
				}
				f.Reads.Add(1)
				if k <= 0 || k > want {
					f.fail("Read with a %d-byte buffer returned %d", want, k)
					return
				}
				if got+int64(k) > offered[w].Load() {
					f.fail("reader %d got %d bytes beyond what its peer has passed to Write", r, got+int64(k)-offered[w].Load())
					return
				}
				if i := CheckPayload(buf[:k], f.Cfg.StreamID[w], got); i >= 0 {
					f.fail("reader %d: stream byte at offset %d is %#x, writer wrote %#x (prefix property broken: %s)", r, got+int64(i), buf[i], Payload(f.Cfg.StreamID[w], got+int64(i)), diagnose(buf[:k], f.Cfg.StreamID[w], got, i))
					return
				}
				if !f.Cfg.Opts[w].Stream && k > mss[w] {
					f.fail("reader %d (message mode): one Read returned %d bytes, Write cuts messages at %d", r, k, mss[w])
					return
				}
				got += int64(k)
			}
		}()
	}
	done := make(chan struct{})
	go func() { apps.Wait(); close(done) }()
	select {
	case <-done:
		completed = true
	case <-time.After(horizon):
	}
	// shut everything down; blocked calls return with errors that the apps ignore after stop
	close(stop)
	for e := 0; e < 2; e++ {
		if sess[e] != nil {
			sess[e].Close()
		}
	}
	if L != nil {
		tbl, _ := L.VerifSessions()
		for a := range tbl {
			if x := L.VerifSession(a); x != nil {
				x.Close()
			}
		}
		L.Close()
	}
	addr[0].Close()
	addr[1].Close()
	<-done
	netMu.Lock()
	netClosed = true
	netMu.Unlock()
	bg.Wait()
	if sess[1] != nil {
		sess[1].Close()
	}
	synctest.Wait()
	return completed && f.Err() == nil, f.Err()
}
