package sim

import (
	"container/heap"
	"fmt"
	"os"
	"sort"
	"time"

	kcp "github.com/xtaci/kcp-go/v5"
	"verif/harness/wire"
)

// EPConfig configures one raw KCP endpoint.
type EPConfig struct {
	MTU        int // 0 = leave the default
	SndWnd     int
	RcvWnd     int
	NoDelay    int
	Interval   int
	Resend     int
	NC         int
	AckNoDelay bool
	Drive      int  // 0: flush re-armed with the interval it returns (session style); 1: public Update/Check loop
	WriteFlush bool // flush right after Send, as a session without write delay does
}

// CoreCfg configures a CoreSim run.
type CoreCfg struct {
	Conv     uint32
	Stream   bool
	EP       [2]EPConfig
	ClockOff uint32    // the 32-bit ms clock reads this at the start of the run
	SeqOff   [2]uint32 // starting sequence number of each endpoint's sending side
	StreamID [2]uint32 // payload stream ids
}

// Pause stops a reader for Ms once it has read AfterBytes bytes.
type Pause struct {
	AfterBytes int64
	Ms         int64
}

// AppScript is what the application at one end does with its sending side and
// what the application at the other end does with the matching receiving side.
type AppScript struct {
	Writes   []int   // sizes of the successive Send calls
	GapMs    []int32 // pause before write i (missing entries = 0)
	ReadBufs []int   // read-buffer sizes, used cyclically
	Pauses   []Pause // reader stalls
	Backlog  int     // writer keeps WaitSnd below this many segments (0 = snd_wnd, the session rule)
	// VecSeed != 0 (sessions only): write i is passed to WriteBuffers as 1..4
	// buffers (some possibly empty) cut at positions that are a pure function
	// of (VecSeed, i); 0 = plain Write.
	VecSeed uint64
}

// VecCuts returns the buffer sizes write i of n bytes is cut into (nil = plain Write).
func (a *AppScript) VecCuts(i, n int) []int {
	if a.VecSeed == 0 {
		return nil
	}
	h := mix64(a.VecSeed ^ uint64(i)*0x9e3779b97f4a7c15)
	k := 1 + int(h%4)
	if k == 1 && h&16 == 0 {
		return nil
	}
	cuts := make([]int, 0, k+1)
	for j := 1; j < k; j++ {
		h = mix64(h + uint64(j))
		cuts = append(cuts, int(h%uint64(n+1)))
	}
	sort.Ints(cuts)
	cuts = append(cuts, n)
	sizes := make([]int, 0, k)
	prev := 0
	for _, c := range cuts {
		sizes = append(sizes, c-prev)
		prev = c
	}
	return sizes
}

// TimedOp is an action the check performs at a virtual time.
type TimedOp struct {
	At   int64
	Name string
	Fn   func(s *CoreSim) error
}

type coreEvent struct {
	at   int64
	seq  int64
	to   int
	data []byte
}

type coreEventHeap []coreEvent

func (h coreEventHeap) Len() int { return len(h) }
func (h coreEventHeap) Less(i, j int) bool {
	if h[i].at != h[j].at {
		return h[i].at < h[j].at
	}
	return h[i].seq < h[j].seq
}
func (h coreEventHeap) Swap(i, j int) { h[i], h[j] = h[j], h[i] }
func (h *coreEventHeap) Push(x any)   { *h = append(*h, x.(coreEvent)) }
func (h *coreEventHeap) Pop() any {
	o := *h
	n := len(o)
	x := o[n-1]
	*h = o[:n-1]
	return x
}

// Emitted describes one datagram handed to the output callback.
type Emitted struct {
	From int
	Idx  int // per-direction emission index
	At   int64
	Raw  []byte
	Segs []wire.Segment
	Err  error // wire parse error, if any
	Fate Fate
}

type coreEP struct {
	nextFlush   int64
	emitted     int
	wi          int   // next write
	writeReady  int64 // earliest time of the next write
	sentBytes   int64 // accepted bytes
	sentMsgs    []int // accepted message sizes (message mode)
	ri          int   // read-buffer index
	recvBytes   int64
	recvMsgs    int
	pauseIdx    int
	pausedUntil int64
	buf         []byte
}

// CoreStats are the observations a run collects for the non-triviality rules.
type CoreStats struct {
	Emitted, Dropped, Duplicated [2]int
	PushSegs, Retrans            [2]int // PUSH segments on the wire; of which repeats of an sn already seen
	OutOfOrder                   [2]int // times the receive heap was non-empty after an Input
	SmallReads                   int    // reads with a buffer smaller than the pending message/segment
	LostPush, LostAck            int    // dropped datagrams carrying PUSH / carrying ACK
	MaxDeliveredDelay            int32
	Steps                        int
	EndMs                        int64
	Done                         bool
}

// CoreSim runs two raw KCP cores against each other over a scripted network
// on a single goroutine inside a synctest bubble.
type CoreSim struct {
	Cfg   CoreCfg
	Fates *FateScript
	App   [2]AppScript // App[i]: endpoint i writes, endpoint 1-i reads
	K     [2]*kcp.KCP

	// OnEmit observes every output callback (before the network acts on it).
	OnEmit func(e *Emitted) error
	// OnStep runs after every API call and processed datagram.
	OnStep func(what string, ep int) error
	// OnDeliver observes a datagram just before it is fed to Input.
	OnDeliver func(to int, raw []byte)
	// Intercept lets a check replace a datagram's scripted fate (nil = keep).
	Intercept func(e *Emitted) *Fate

	// Ops are extra actions performed at fixed virtual times (sorted by At).
	Ops []TimedOp

	Stats CoreStats

	// InCall names the API call in progress when a callback fires.
	InCall string

	opIdx  int
	start  time.Time
	events coreEventHeap
	seq    int64
	ep     [2]*coreEP
	seenSn [2]map[uint32]bool
	err    error
}

// NewCoreSim builds the endpoints. It must be called inside the bubble.
func NewCoreSim(cfg CoreCfg, fates *FateScript, app [2]AppScript) *CoreSim {
	s := &CoreSim{Cfg: cfg, Fates: fates, App: app}
	s.start = time.Now()
	kcp.VerifSetClock(cfg.ClockOff)
	for i := 0; i < 2; i++ {
		i := i
		s.ep[i] = &coreEP{buf: make([]byte, 1<<16)}
		s.seenSn[i] = map[uint32]bool{}
		k := kcp.NewKCP(cfg.Conv, func(buf []byte, size int) { s.emit(i, buf, size) })
		e := cfg.EP[i]
		if e.MTU != 0 {
			k.SetMtu(e.MTU)
		}
		k.WndSize(e.SndWnd, e.RcvWnd)
		k.NoDelay(e.NoDelay, e.Interval, e.Resend, e.NC)
		k.VerifSetStream(cfg.Stream)
		s.K[i] = k
	}
	for i := 0; i < 2; i++ {
		s.K[i].VerifSetSeq(cfg.SeqOff[i], cfg.SeqOff[1-i])
	}
	return s
}

// Now is the virtual time in ms since the start of the run.
func (s *CoreSim) Now() int64 { return int64(time.Since(s.start) / time.Millisecond) }

func (s *CoreSim) fail(format string, a ...any) {
	if s.err == nil {
		s.err = fmt.Errorf("t=%dms: %s", s.Now(), fmt.Sprintf(format, a...))
	}
}

var traceOn = os.Getenv("VERIF_TRACE") != ""

func (s *CoreSim) step(what string, ep int) {
	s.Stats.Steps++
	if traceOn && ep >= 0 {
		st := s.K[ep].VerifState(true)
		fmt.Printf("t=%d STEP %s ep%d una=%d nxt=%d cwnd=%d rmt=%d sndq=%d sndbuf=%v acked=%v rcvnxt=%d rcvq=%d rcvbuf=%v\n", s.Now(), what, ep, st.SndUna, st.SndNxt, st.Cwnd, st.RmtWnd, st.SndQueue, st.SndBufSn, st.SndBufAcked, st.RcvNxt, st.RcvQueue, st.RcvBufSn)
	}
	if s.OnStep != nil && s.err == nil {
		if err := s.OnStep(what, ep); err != nil {
			s.fail("%s at endpoint %d: %v", what, ep, err)
		}
	}
}

func (s *CoreSim) emit(from int, buf []byte, size int) {
	e := &Emitted{From: from, Idx: s.ep[from].emitted, At: s.Now()}
	s.ep[from].emitted++
	s.Stats.Emitted[from]++
	if size < 0 || size > len(buf) {
		s.fail("output callback of endpoint %d called with size %d for a %d-byte buffer", from, size, len(buf))
		return
	}
	e.Raw = append([]byte(nil), buf[:size]...)
	e.Segs, e.Err = wire.ParseSegments(e.Raw)
	hasPush, hasAck := false, false
	for _, sg := range e.Segs {
		switch sg.Cmd {
		case wire.CmdPush:
			hasPush = true
			s.Stats.PushSegs[from]++
			if s.seenSn[from][sg.Sn] {
				s.Stats.Retrans[from]++
			}
			s.seenSn[from][sg.Sn] = true
		case wire.CmdAck:
			hasAck = true
		}
	}
	e.Fate = s.Fates.FateFor(from, e.Idx, e.At)
	if traceOn {
		st := s.K[from].VerifState(false)
		fmt.Printf("t=%d EMIT ep%d #%d fate=%v una=%d nxt=%d cwnd=%d rmt=%d ssthresh=%d:", e.At, from, e.Idx, e.Fate, st.SndUna, st.SndNxt, st.Cwnd, st.RmtWnd, st.Ssthresh)
		for _, sg := range e.Segs {
			fmt.Printf(" [cmd=%d sn=%d una=%d wnd=%d ts=%d len=%d]", sg.Cmd, sg.Sn, sg.Una, sg.Wnd, sg.Ts, len(sg.Data))
		}
		fmt.Println()
	}
	if s.Intercept != nil {
		if f := s.Intercept(e); f != nil {
			e.Fate = *f
		}
	}
	if s.OnEmit != nil && s.err == nil {
		if err := s.OnEmit(e); err != nil {
			s.fail("datagram #%d of endpoint %d: %v", e.Idx, from, err)
		}
	}
	if e.Fate.Copies == 0 {
		s.Stats.Dropped[from]++
		if hasPush {
			s.Stats.LostPush++
		}
		if hasAck {
			s.Stats.LostAck++
		}
		return
	}
	if e.Fate.Copies > 1 {
		s.Stats.Duplicated[from]++
	}
	for c := 0; c < e.Fate.Copies; c++ {
		s.seq++
		d := e.Fate.Delay[c]
		s.Stats.MaxDeliveredDelay = max(s.Stats.MaxDeliveredDelay, d)
		heap.Push(&s.events, coreEvent{at: e.At + int64(d), seq: s.seq, to: 1 - from, data: e.Raw})
	}
}

// Inject schedules a datagram for delivery to endpoint `to` after delay ms.
func (s *CoreSim) Inject(to int, data []byte, delay int64) {
	s.seq++
	heap.Push(&s.events, coreEvent{at: s.Now() + delay, seq: s.seq, to: to, data: append([]byte(nil), data...)})
}

// mss of endpoint i as the documentation defines it (mtu - 24).
func (s *CoreSim) mss(i int) int {
	m := s.Cfg.EP[i].MTU
	if m == 0 {
		m = 1400
	}
	return m - 24
}

// pumpWriter lets endpoint w perform the writes that are admitted now.
func (s *CoreSim) pumpWriter(w int) {
	app := &s.App[w]
	ep := s.ep[w]
	k := s.K[w]
	now := s.Now()
	limit := app.Backlog
	if limit <= 0 {
		limit = s.Cfg.EP[w].SndWnd
	}
	for ep.wi < len(app.Writes) && s.err == nil {
		if now < ep.writeReady || k.WaitSnd() >= limit {
			return
		}
		n := app.Writes[ep.wi]
		if cap(ep.buf) < n {
			ep.buf = make([]byte, n)
		}
		b := ep.buf[:n]
		FillPayload(b, s.Cfg.StreamID[w], ep.sentBytes)
		ret := k.Send(b)
		if ret >= 0 {
			ep.sentBytes += int64(n)
			ep.sentMsgs = append(ep.sentMsgs, n)
		}
		s.step("Send", w)
		ep.wi++
		if ep.wi < len(app.GapMs) && app.GapMs[ep.wi] > 0 {
			ep.writeReady = now + int64(app.GapMs[ep.wi])
		}
		if s.Cfg.EP[w].WriteFlush && s.Cfg.EP[w].Drive == 0 {
			k.VerifFlush()
			s.step("flush-after-Send", w)
		}
		s.nextDrive(w)
	}
}

// pumpReader lets endpoint r (reading the stream written by 1-r) read.
func (s *CoreSim) pumpReader(r int) {
	w := 1 - r
	app := &s.App[w]
	ep := s.ep[r]
	k := s.K[r]
	now := s.Now()
	for s.err == nil {
		if now < ep.pausedUntil {
			return
		}
		if ep.pauseIdx < len(app.Pauses) && ep.recvBytes >= app.Pauses[ep.pauseIdx].AfterBytes {
			ep.pausedUntil = now + app.Pauses[ep.pauseIdx].Ms
			ep.pauseIdx++
			if now < ep.pausedUntil {
				return
			}
		}
		peek := k.PeekSize()
		if peek < 0 {
			return
		}
		want := 65536
		if len(app.ReadBufs) > 0 {
			want = app.ReadBufs[ep.ri%len(app.ReadBufs)]
			ep.ri++
		}
		if want < peek {
			s.Stats.SmallReads++
			if n := k.Recv(ep.buf[:want]); n != -2 {
				s.fail("Recv with a %d-byte buffer returned %d while the next message has %d bytes (want -2)", want, n, peek)
				return
			}
			s.step("Recv(-2)", r)
			want = peek
		}
		if cap(ep.buf) < want {
			ep.buf = make([]byte, want)
		}
		n := k.Recv(ep.buf[:want])
		if n != peek {
			s.fail("Recv returned %d, PeekSize announced %d", n, peek)
			return
		}
		got := ep.buf[:n]
		sid := s.Cfg.StreamID[w]
		if s.Cfg.Stream {
			if ep.recvBytes+int64(n) > s.ep[w].sentBytes {
				s.fail("reader %d got %d bytes beyond the %d the writer has had accepted", r, ep.recvBytes+int64(n)-s.ep[w].sentBytes, s.ep[w].sentBytes)
				return
			}
			if i := CheckPayload(got, sid, ep.recvBytes); i >= 0 {
				s.fail("reader %d: stream byte at offset %d is %#x, writer wrote %#x (prefix property broken: %s)", r, ep.recvBytes+int64(i), got[i], Payload(sid, ep.recvBytes+int64(i)), diagnose(got, sid, ep.recvBytes, i))
				return
			}
		} else {
			if ep.recvMsgs >= len(s.ep[w].sentMsgs) {
				s.fail("reader %d got a message no. %d, writer only had %d accepted", r, ep.recvMsgs+1, len(s.ep[w].sentMsgs))
				return
			}
			if want := s.ep[w].sentMsgs[ep.recvMsgs]; n != want {
				s.fail("reader %d: message no. %d has %d bytes, writer sent %d (boundary not preserved)", r, ep.recvMsgs, n, want)
				return
			}
			if i := CheckPayload(got, sid, ep.recvBytes); i >= 0 {
				s.fail("reader %d: message no. %d differs at byte %d (%s)", r, ep.recvMsgs, i, diagnose(got, sid, ep.recvBytes, i))
				return
			}
			ep.recvMsgs++
		}
		ep.recvBytes += int64(n)
		s.step("Recv", r)
	}
}

// diagnose says whether the wrong bytes are stream content from elsewhere
// (loss / duplication / reordering) or no stream content at all (alteration).
func diagnose(got []byte, sid uint32, off int64, i int) string {
	probe := got[i:min(len(got), i+8)]
	if len(probe) < 4 {
		return "too few bytes to classify"
	}
	for d := int64(-200000); d <= 200000; d++ {
		if d == 0 || off+int64(i)+d < 0 {
			continue
		}
		if CheckPayload(probe, sid, off+int64(i)+d) < 0 {
			if d > 0 {
				return fmt.Sprintf("bytes from %d further on: data lost or reordered", d)
			}
			return fmt.Sprintf("bytes from %d earlier: data duplicated or reordered", -d)
		}
	}
	return "bytes that occur nowhere near in the stream: data altered"
}

func (s *CoreSim) nextDrive(i int) {
	if s.Cfg.EP[i].Drive == 1 {
		chk := s.K[i].Check()
		dt := int64(int32(chk - kcp.VerifNowMs()))
		if dt < 0 {
			dt = 0
		}
		s.ep[i].nextFlush = s.Now() + dt
	}
}

// AllDelivered reports whether every accepted byte has been read and both
// send backlogs are empty.
func (s *CoreSim) AllDelivered() bool {
	for w := 0; w < 2; w++ {
		if s.ep[w].wi < len(s.App[w].Writes) {
			return false
		}
		if s.ep[1-w].recvBytes != s.ep[w].sentBytes {
			return false
		}
		if s.K[w].WaitSnd() != 0 {
			return false
		}
	}
	return true
}

// Progress returns accepted and received byte counts for stream w.
func (s *CoreSim) Progress(w int) (accepted, received int64) {
	return s.ep[w].sentBytes, s.ep[1-w].recvBytes
}

// WritesDone tells whether writer w has issued all its writes.
func (s *CoreSim) WritesDone(w int) bool { return s.ep[w].wi >= len(s.App[w].Writes) }

// ReaderPausedUntil is the time until which reader r is stalled.
func (s *CoreSim) ReaderPausedUntil(r int) int64 { return s.ep[r].pausedUntil }

// Run advances the simulation until everything is delivered or the virtual
// time horizon is reached. It returns the first oracle failure.
func (s *CoreSim) Run(horizonMs int64) error {
	for s.err == nil {
		for i := 0; i < 2; i++ {
			s.pumpWriter(i)
		}
		for i := 0; i < 2; i++ {
			s.pumpReader(i)
		}
		for i := 0; i < 2; i++ {
			s.pumpWriter(i) // a read may have opened nothing locally, but a flush may have freed backlog
		}
		if s.err != nil {
			break
		}
		if s.AllDelivered() && len(s.events) == 0 {
			s.Stats.Done = true
			break
		}
		now := s.Now()
		next := int64(1) << 60
		if len(s.events) > 0 {
			next = min(next, s.events[0].at)
		}
		for i := 0; i < 2; i++ {
			next = min(next, s.ep[i].nextFlush)
			if s.ep[i].pausedUntil > now {
				next = min(next, s.ep[i].pausedUntil)
			}
			if s.ep[i].writeReady > now && s.ep[i].wi < len(s.App[i].Writes) {
				next = min(next, s.ep[i].writeReady)
			}
		}
		if s.opIdx < len(s.Ops) {
			next = min(next, max(now, s.Ops[s.opIdx].At))
		}
		if next > horizonMs {
			break
		}
		if next > now {
			time.Sleep(time.Duration(next-now) * time.Millisecond)
			now = s.Now()
		}
		for s.opIdx < len(s.Ops) && s.Ops[s.opIdx].At <= now && s.err == nil {
			op := s.Ops[s.opIdx]
			s.opIdx++
			if err := op.Fn(s); err != nil {
				s.fail("%s: %v", op.Name, err)
			}
			s.step(op.Name, -1)
		}
		// deliveries due now, in arrival order
		for len(s.events) > 0 && s.events[0].at <= now && s.err == nil {
			ev := heap.Pop(&s.events).(coreEvent)
			if s.OnDeliver != nil {
				s.OnDeliver(ev.to, ev.data)
			}
			s.InCall = "Input"
			s.K[ev.to].Input(ev.data, kcp.IKCP_PACKET_REGULAR, s.Cfg.EP[ev.to].AckNoDelay)
			s.InCall = ""
			if st := s.K[ev.to].VerifState(false); st.RcvBuf > 0 {
				s.Stats.OutOfOrder[ev.to]++
			}
			s.step("Input", ev.to)
			s.nextDrive(ev.to)
		}
		for i := 0; i < 2 && s.err == nil; i++ {
			if s.ep[i].nextFlush <= now {
				if s.Cfg.EP[i].Drive == 0 {
					iv := s.K[i].VerifFlush()
					s.ep[i].nextFlush = now + int64(iv)
					s.step("flush", i)
				} else {
					s.K[i].Update()
					s.step("Update", i)
					s.nextDrive(i)
					if s.ep[i].nextFlush <= now {
						s.ep[i].nextFlush = now + 1
					}
				}
			}
		}
	}
	s.Stats.EndMs = s.Now()
	return s.err
}

// Release returns pooled buffers of both cores by draining them (keeps the
// pool sanitizer's accounting meaningful across cases). Best effort.
func (s *CoreSim) Release() {}
