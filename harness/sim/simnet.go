package sim

import (
	"errors"
	"net"
	"sync"
	"time"
)

// StrAddr is a net.Addr that is not a *net.UDPAddr (exercises the string
// comparison path of the read loop).
type StrAddr string

func (a StrAddr) Network() string { return "sim" }
func (a StrAddr) String() string  { return string(a) }

type simPkt struct {
	from net.Addr
	data []byte
}

// Sent is one datagram handed to WriteTo.
type Sent struct {
	From *PConn
	To   net.Addr
	Data []byte
	At   time.Time
}

// Net is the simulated datagram network: it records what is written and
// delivers what the event loop tells it to.
type Net struct {
	mu     sync.Mutex
	conns  map[string]*PConn
	outbox []Sent
	// Direct delivers every written datagram to its destination at once
	// (free-running mode without an event loop).
	Direct bool
	// OnWrite, when set, takes over every written datagram (free-running mode
	// with fates): it is called on the writer's goroutine with a private copy.
	OnWrite func(c *PConn, to string, data []byte)
}

// NewNet creates an empty network.
func NewNet() *Net { return &Net{conns: map[string]*PConn{}} }

// PConn is a simulated net.PacketConn.
type PConn struct {
	n         *Net
	addr      net.Addr
	inbox     chan simPkt
	closed    chan struct{}
	closeOnce sync.Once
	mu        sync.Mutex
	readErr   chan error
	writeErr  error
	failNext  int   // this many further WriteTo calls fail with failErr (a transient fault)
	failErr   error
	Overflow  int // datagrams dropped because the inbox was full
	Writes    int
}

// Listen creates a socket with the given address.
func (n *Net) Listen(addr net.Addr) *PConn {
	c := &PConn{n: n, addr: addr, inbox: make(chan simPkt, 8192), closed: make(chan struct{}), readErr: make(chan error, 1)}
	n.mu.Lock()
	n.conns[addr.String()] = c
	n.mu.Unlock()
	return c
}

// Conn finds the socket bound to addr.
func (n *Net) Conn(addr string) *PConn {
	n.mu.Lock()
	defer n.mu.Unlock()
	return n.conns[addr]
}

// TakeSent removes and returns the datagrams written since the last call.
func (n *Net) TakeSent() []Sent {
	n.mu.Lock()
	out := n.outbox
	n.outbox = nil
	n.mu.Unlock()
	return out
}

// Deliver puts a datagram into the inbox of the socket bound to `to`.
func (n *Net) Deliver(to string, from net.Addr, data []byte) bool {
	c := n.Conn(to)
	if c == nil {
		return false
	}
	select {
	case <-c.closed:
		return false
	default:
	}
	select {
	case c.inbox <- simPkt{from, data}:
		return true
	default:
		c.mu.Lock()
		c.Overflow++
		c.mu.Unlock()
		return false
	}
}

var errSimClosed = net.ErrClosed

// ReadFrom blocks until a datagram is delivered, the socket is closed or an
// error is injected.
func (c *PConn) ReadFrom(b []byte) (int, net.Addr, error) {
	select {
	case <-c.closed:
		return 0, nil, errSimClosed
	default:
	}
	select {
	case p := <-c.inbox:
		n := copy(b, p.data)
		return n, p.from, nil
	case err := <-c.readErr:
		return 0, nil, err
	case <-c.closed:
		return 0, nil, errSimClosed
	}
}

// WriteTo records the datagram for the event loop.
func (c *PConn) WriteTo(b []byte, addr net.Addr) (int, error) {
	select {
	case <-c.closed:
		return 0, errSimClosed
	default:
	}
	c.mu.Lock()
	werr := c.writeErr
	if werr == nil && c.failNext > 0 {
		c.failNext--
		werr = c.failErr
	}
	c.Writes++
	c.mu.Unlock()
	if werr != nil {
		return 0, werr
	}
	if c.n.OnWrite != nil {
		c.n.OnWrite(c, addr.String(), append([]byte(nil), b...))
		return len(b), nil
	}
	if c.n.Direct {
		c.n.Deliver(addr.String(), c.addr, append([]byte(nil), b...))
		return len(b), nil
	}
	c.n.mu.Lock()
	c.n.outbox = append(c.n.outbox, Sent{From: c, To: addr, Data: append([]byte(nil), b...), At: time.Now()})
	c.n.mu.Unlock()
	return len(b), nil
}

// Flush discards every datagram waiting in the socket's receive queue and
// returns how many there were.
func (c *PConn) Flush() int {
	n := 0
	for {
		select {
		case <-c.inbox:
			n++
		default:
			return n
		}
	}
}

// InjectReadError makes the pending or next ReadFrom fail with err.
func (c *PConn) InjectReadError(err error) {
	select {
	case c.readErr <- err:
	default:
	}
}

// InjectWriteError makes every later WriteTo fail with err.
func (c *PConn) InjectWriteError(err error) {
	c.mu.Lock()
	c.writeErr = err
	c.mu.Unlock()
}

// FailWrites makes the next n WriteTo calls fail with err; after that the
// socket works again (a route that disappears for a moment).
func (c *PConn) FailWrites(n int, err error) {
	c.mu.Lock()
	c.failNext, c.failErr = n, err
	c.mu.Unlock()
}

// Close closes the socket.
func (c *PConn) Close() error {
	already := true
	c.closeOnce.Do(func() { close(c.closed); already = false })
	if already {
		return errors.New("simnet: already closed")
	}
	return nil
}

// IsClosed reports whether Close was called.
func (c *PConn) IsClosed() bool {
	select {
	case <-c.closed:
		return true
	default:
		return false
	}
}

func (c *PConn) LocalAddr() net.Addr                { return c.addr }
func (c *PConn) SetDeadline(t time.Time) error      { return nil }
func (c *PConn) SetReadDeadline(t time.Time) error  { return nil }
func (c *PConn) SetWriteDeadline(t time.Time) error { return nil }
