package sim

import (
	"fmt"
	"io"
	"net"

	kcp "github.com/xtaci/kcp-go/v5"
	"verif/harness/wire"
)

// SessOpts are the tuning calls applied to one session.
type SessOpts struct {
	SndWnd, RcvWnd int
	MTU            int // 0 = leave the default (1400)
	NoDelay        int
	Interval       int
	Resend         int
	NC             int
	Stream         bool
	WriteDelay     bool
	AckNoDelay     bool
}

// PairCfg configures a client/server pair of real sessions.
type PairCfg struct {
	Cipher      string
	Key         []byte
	FEC         [2][2]int // [end]{dataShards, parityShards}; 0,0 = off
	Opts        [2]SessOpts
	Conv        uint32
	Listener    bool // server side is a Listener (ServeConn + Accept); otherwise both ends are dialled
	StrAddr     bool // addresses are not *net.UDPAddr
	ClockOff    uint32
	EntropySeed uint64
	StreamID    [2]uint32
}

// SessionMSS is the payload capacity of one KCP segment of a session with the
// given MTU, computed from the documented frame layout.
func SessionMSS(mtu int, c *wire.Crypto, fec bool) int {
	if mtu == 0 {
		mtu = 1400
	}
	mtu = min(mtu, 1500)
	m := mtu - c.HeaderSize() - c.TagSize() - wire.SegHeader
	if fec {
		m -= wire.FECHeader + 2
	}
	return m
}

type flow struct {
	app         AppScript
	sid         uint32
	total       int64
	wi          int
	wcall       *Call
	writeReady  int64
	sentBytes   int64
	chunks      []int64 // cumulative end offsets of the chunks Write cut (message mode)
	chunkIdx    int
	wWritable   bool // the session admitted writes when the pending Write was issued
	wEvents     int  // events executed when it was issued
	rcall       *Call
	rbuf        []byte
	ri          int
	recvBytes   int64
	pauseIdx    int
	pausedUntil int64
	SmallReads  int
	Reads       int
	wbuf        []byte
}

// Pair is a client session and its server-side peer over the simulated net.
type Pair struct {
	S      *SessSim
	Cfg    PairCfg
	Crypto *wire.Crypto
	Addr   [2]net.Addr
	Conn   [2]*PConn
	Sess   [2]*kcp.UDPSession // 0 = client, 1 = server side (nil until accepted)
	L      *kcp.Listener
	accept *Call
	flows  [2]*flow // flows[w]: end w writes, end 1-w reads
	MSS    [2]int

	// OnRead observes every completed Read of end r (after the content oracle).
	OnRead func(r int, n int, err error)
	// VecWrites counts the writes issued through WriteBuffers with several buffers.
	VecWrites int
	// WriteCutOK[w]: a Write at end w may fail (its socket has reported a send
	// error, after which the library refuses further writes): the flow then
	// ends with what had been accepted. WriteCut[w] tells that it happened.
	WriteCutOK [2]bool
	WriteCut   [2]bool
}

func mkAddr(str bool, host byte, port int) net.Addr {
	if str {
		return StrAddr(fmt.Sprintf("sim-%d:%d", host, port))
	}
	return &net.UDPAddr{IP: net.IPv4(10, 0, 0, host), Port: port}
}

// ApplyOpts performs the tuning calls on a session.
func ApplyOpts(s *kcp.UDPSession, o SessOpts) error {
	if o.MTU != 0 {
		if !s.SetMtu(o.MTU) {
			return fmt.Errorf("SetMtu(%d) refused", o.MTU)
		}
	}
	s.SetWindowSize(o.SndWnd, o.RcvWnd)
	s.SetNoDelay(o.NoDelay, o.Interval, o.Resend, o.NC)
	s.SetStreamMode(o.Stream)
	s.SetWriteDelay(o.WriteDelay)
	s.SetACKNoDelay(o.AckNoDelay)
	return nil
}

// NewPair creates sockets and sessions. Must be called inside the bubble.
func NewPair(s *SessSim, cfg PairCfg, app [2]AppScript) (*Pair, error) {
	p := &Pair{S: s, Cfg: cfg}
	var err error
	if p.Crypto, err = wire.NewCrypto(cfg.Cipher, cfg.Key); err != nil {
		return nil, err
	}
	p.Addr[0] = mkAddr(cfg.StrAddr, 1, 40001)
	p.Addr[1] = mkAddr(cfg.StrAddr, 2, 29900)
	p.Conn[0] = s.Net.Listen(p.Addr[0])
	p.Conn[1] = s.Net.Listen(p.Addr[1])
	blk := func() kcp.BlockCrypt {
		b, e := NewBlockCrypt(cfg.Cipher, cfg.Key)
		if e != nil {
			err = e
		}
		return b
	}
	for e := 0; e < 2; e++ {
		p.MSS[e] = SessionMSS(cfg.Opts[e].MTU, p.Crypto, cfg.FEC[e][0] > 0 && cfg.FEC[e][1] > 0)
	}
	p.Sess[0], _ = kcp.NewConn3(cfg.Conv, p.Addr[1], blk(), cfg.FEC[0][0], cfg.FEC[0][1], p.Conn[0])
	if err != nil {
		return nil, err
	}
	if e := ApplyOpts(p.Sess[0], cfg.Opts[0]); e != nil {
		return nil, e
	}
	if cfg.Listener {
		p.L, _ = kcp.ServeConn(blk(), cfg.FEC[1][0], cfg.FEC[1][1], p.Conn[1])
		p.accept = s.Go("Accept", func() (int, error, any) {
			c, err := p.L.AcceptKCP()
			return 0, err, c
		})
	} else {
		p.Sess[1], _ = kcp.NewConn3(cfg.Conv, p.Addr[0], blk(), cfg.FEC[1][0], cfg.FEC[1][1], p.Conn[1])
		if e := ApplyOpts(p.Sess[1], cfg.Opts[1]); e != nil {
			return nil, e
		}
	}
	for w := 0; w < 2; w++ {
		f := &flow{app: app[w], sid: cfg.StreamID[w]}
		for _, n := range app[w].Writes {
			f.total += int64(n)
		}
		p.flows[w] = f
	}
	return p, err
}

// Flow statistics.
func (p *Pair) Progress(w int) (accepted, received, total int64) {
	f := p.flows[w]
	return f.sentBytes, f.recvBytes, f.total
}

// SmallReads counts reads whose buffer was smaller than the pending chunk.
func (p *Pair) SmallReads() int { return p.flows[0].SmallReads + p.flows[1].SmallReads }

// Complete reports whether every byte of both scripts has been written and read.
func (p *Pair) Complete() bool {
	for w := 0; w < 2; w++ {
		f := p.flows[w]
		if f.wi < len(f.app.Writes) || f.recvBytes != f.total {
			return false
		}
	}
	return true
}

// Drained additionally requires both send backlogs to be empty.
func (p *Pair) Drained() bool {
	if !p.Complete() {
		return false
	}
	for e := 0; e < 2; e++ {
		if p.Sess[e] == nil {
			continue
		}
		w := 0
		p.Sess[e].VerifWithKCP(func(k *kcp.KCP) { w = k.WaitSnd() })
		if w != 0 {
			return false
		}
	}
	return true
}

// Pump inspects completed calls, applies the C01 content oracle and issues
// the next calls. It returns true if it issued a call.
func (p *Pair) Pump() bool {
	s := p.S
	issued := false
	now := s.Now()
	if p.accept != nil && p.accept.Done() {
		if p.accept.Err != nil {
			s.Fail("Accept failed: %v", p.accept.Err)
			return false
		}
		p.Sess[1] = p.accept.Val.(*kcp.UDPSession)
		p.accept = nil
		if e := ApplyOpts(p.Sess[1], p.Cfg.Opts[1]); e != nil {
			s.Fail("accepted session: %v", e)
			return false
		}
	}
	for w := 0; w < 2 && s.err == nil; w++ {
		f := p.flows[w]
		r := 1 - w
		// writer
		if f.wcall != nil && f.wcall.Done() {
			n := f.app.Writes[f.wi]
			if f.wcall.Err != nil && p.WriteCutOK[w] && f.wcall.N == 0 {
				// nothing of this write was accepted; the stream ends here
				p.WriteCut[w] = true
				f.wcall = nil
				f.wi = len(f.app.Writes)
				f.total = f.sentBytes
				continue
			}
			if f.wcall.Err != nil {
				s.Fail("Write(%d bytes) at end %d failed: %v", n, w, f.wcall.Err)
				return false
			}
			if f.wcall.N != n {
				s.Fail("Write(%d bytes) at end %d returned %d", n, w, f.wcall.N)
				return false
			}
			if !f.wWritable && s.Events == f.wEvents {
				s.Fail("Write(%d bytes) at end %d was admitted although a full send window of segments was pending when it was issued and nothing happened in between", n, w)
				return false
			}
			if !p.Cfg.Opts[w].Stream {
				// every buffer handed over is cut at the mss on its own
				sizes := f.app.VecCuts(f.wi, n)
				if sizes == nil {
					sizes = []int{n}
				}
				base := f.sentBytes
				for _, sz := range sizes {
					for off := 0; off < sz; off += p.MSS[w] {
						f.chunks = append(f.chunks, base+int64(min(sz, off+p.MSS[w])))
					}
					base += int64(sz)
				}
			}
			f.sentBytes += int64(n)
			f.wcall = nil
			f.wi++
			if f.wi < len(f.app.GapMs) && f.app.GapMs[f.wi] > 0 {
				f.writeReady = now + int64(f.app.GapMs[f.wi])
				s.WakeAt(f.writeReady)
			}
		}
		if f.wcall == nil && f.wi < len(f.app.Writes) && now >= f.writeReady && p.Sess[w] != nil {
			n := f.app.Writes[f.wi]
			if cap(f.wbuf) < n {
				f.wbuf = make([]byte, n)
			}
			b := f.wbuf[:n]
			FillPayload(b, f.sid, f.sentBytes)
			sess := p.Sess[w]
			f.wWritable, f.wEvents = sess.VerifWritable(), s.Events
			if sizes := f.app.VecCuts(f.wi, n); sizes != nil {
				v := make([][]byte, 0, len(sizes))
				rest := b
				for _, sz := range sizes {
					v = append(v, rest[:sz:sz])
					rest = rest[sz:]
				}
				p.VecWrites++
				f.wcall = s.Go("WriteBuffers", func() (int, error, any) { n, err := sess.WriteBuffers(v); return n, err, nil })
			} else {
				f.wcall = s.Go("Write", func() (int, error, any) { n, err := sess.Write(b); return n, err, nil })
			}
			issued = true
		}
		// reader
		if f.rcall != nil && f.rcall.Done() {
			n, err := f.rcall.N, f.rcall.Err
			f.Reads++
			if err != nil {
				s.Fail("Read at end %d failed: %v", r, err)
				return false
			}
			got := f.rbuf[:n]
			if n <= 0 || n > len(f.rbuf) {
				s.Fail("Read at end %d with a %d-byte buffer returned n=%d", r, len(f.rbuf), n)
				return false
			}
			if f.recvBytes+int64(n) > f.sentBytes {
				s.Fail("reader %d got %d bytes beyond the %d its peer's Write calls have had accepted", r, f.recvBytes+int64(n)-f.sentBytes, f.sentBytes)
				return false
			}
			if i := CheckPayload(got, f.sid, f.recvBytes); i >= 0 {
				s.Fail("reader %d: stream byte at offset %d is %#x, writer wrote %#x (prefix property broken: %s)", r, f.recvBytes+int64(i), got[i], Payload(f.sid, f.recvBytes+int64(i)), diagnose(got, f.sid, f.recvBytes, i))
				return false
			}
			if !p.Cfg.Opts[w].Stream {
				for f.chunkIdx < len(f.chunks) && f.chunks[f.chunkIdx] <= f.recvBytes {
					f.chunkIdx++
				}
				if f.chunkIdx >= len(f.chunks) {
					s.Fail("reader %d: got data beyond the last message written", r)
					return false
				}
				rest := f.chunks[f.chunkIdx] - f.recvBytes
				if want := min(int64(len(f.rbuf)), rest); int64(n) != want {
					s.Fail("reader %d (message mode): Read with a %d-byte buffer returned %d bytes at stream offset %d; the message in progress has %d bytes left (boundaries not preserved)", r, len(f.rbuf), n, f.recvBytes, rest)
					return false
				}
				if int64(len(f.rbuf)) < rest {
					f.SmallReads++
				}
			}
			f.recvBytes += int64(n)
			f.rcall = nil
			if p.OnRead != nil {
				p.OnRead(r, n, err)
			}
		}
		if f.rcall == nil && f.recvBytes < f.total && p.Sess[r] != nil {
			if f.pauseIdx < len(f.app.Pauses) && f.recvBytes >= f.app.Pauses[f.pauseIdx].AfterBytes {
				f.pausedUntil = now + f.app.Pauses[f.pauseIdx].Ms
				f.pauseIdx++
				s.WakeAt(f.pausedUntil)
			}
			if now >= f.pausedUntil {
				want := 65536
				if len(f.app.ReadBufs) > 0 {
					want = f.app.ReadBufs[f.ri%len(f.app.ReadBufs)]
					f.ri++
				}
				if cap(f.rbuf) < want {
					f.rbuf = make([]byte, want)
				}
				f.rbuf = f.rbuf[:want]
				sess, buf := p.Sess[r], f.rbuf
				f.rcall = s.Go("Read", func() (int, error, any) { n, err := sess.Read(buf); return n, err, nil })
				issued = true
			}
		}
	}
	return issued
}

// ReaderPaused tells whether the reader of flow w is stalled now.
func (p *Pair) ReaderPaused(w int) bool { return p.S.Now() < p.flows[w].pausedUntil }

// Run drives the pair until both scripts are complete (and, with drain, both
// backlogs are empty) or the horizon is reached. It returns the first failure.
func (p *Pair) Run(horizon int64, drain bool) error {
	s := p.S
	for s.err == nil {
		s.Quiesce()
		if s.err != nil {
			break
		}
		if p.Pump() {
			continue
		}
		if s.err != nil {
			break
		}
		if (drain && p.Drained()) || (!drain && p.Complete()) {
			break
		}
		if !s.Step(horizon) {
			break
		}
	}
	return s.err
}

// Close closes everything the pair opened, in the given order of
// {client session, server session, listener, client socket, server socket}
// (nil = that order), and checks the documented Close results.
func (p *Pair) Close(order []int) {
	if order == nil {
		order = []int{0, 1, 2, 3, 4}
	}
	for _, o := range order {
		switch o {
		case 0:
			if p.Sess[0] != nil {
				p.Sess[0].Close()
			}
		case 1:
			if p.Sess[1] != nil {
				p.Sess[1].Close()
			}
		case 2:
			if p.L != nil {
				p.L.Close()
			}
		case 3:
			p.Conn[0].Close()
		case 4:
			p.Conn[1].Close()
		}
		p.S.Quiesce()
	}
}

// CloseLateAccept closes a session that a pending Accept call returned after
// the harness stopped pumping (Accept may win the race against Close).
func (p *Pair) CloseLateAccept() {
	p.S.Quiesce()
	if p.accept != nil && p.accept.Done() {
		if c, ok := p.accept.Val.(*kcp.UDPSession); ok && c != nil {
			c.Close()
		}
		p.accept = nil
	}
}

// Finish closes everything and lets the remaining callbacks and goroutines
// run out. Blocked application calls return with an error after Close.
func (p *Pair) Finish(order []int) {
	p.Close(order)
	p.CloseLateAccept()
	p.S.Drain(60_000)
	for _, c := range p.S.BlockedCalls() {
		_ = c
	}
}

var _ = io.EOF
