package sim

import (
	"fmt"

	"pgregory.net/rapid"
)

// DrawEPConfig draws one raw endpoint configuration.
func DrawEPConfig(t *rapid.T, label string) EPConfig {
	wnds := []int{1, 2, 3, 4, 5, 8, 16, 32, 128, 1024}
	return EPConfig{
		MTU:        rapid.SampledFrom([]int{0, 0, 50, 100, 256, 576, 1000, 1400, 1500}).Draw(t, label+"mtu"),
		SndWnd:     rapid.SampledFrom(wnds).Draw(t, label+"sndwnd"),
		RcvWnd:     rapid.SampledFrom(wnds).Draw(t, label+"rcvwnd"),
		NoDelay:    rapid.IntRange(0, 1).Draw(t, label+"nodelay"),
		Interval:   rapid.SampledFrom([]int{10, 10, 20, 20, 40, 40, 100, 100, 200, 200, 1000, 5000}).Draw(t, label+"interval"),
		Resend:     rapid.SampledFrom([]int{0, 1, 2, 5}).Draw(t, label+"resend"),
		NC:         rapid.IntRange(0, 1).Draw(t, label+"nc"),
		AckNoDelay: rapid.Bool().Draw(t, label+"acknodelay"),
		Drive:      rapid.IntRange(0, 1).Draw(t, label+"drive"),
		WriteFlush: rapid.Bool().Draw(t, label+"writeflush"),
	}
}

// DrawCoreCfg draws a configuration for CoreSim (sequence and clock offsets 0).
func DrawCoreCfg(t *rapid.T) CoreCfg {
	c := CoreCfg{
		Conv:     rapid.Uint32().Draw(t, "conv"),
		Stream:   rapid.Bool().Draw(t, "stream"),
		StreamID: [2]uint32{rapid.Uint32().Draw(t, "sidA"), rapid.Uint32().Draw(t, "sidB")},
	}
	c.EP[0] = DrawEPConfig(t, "A.")
	c.EP[1] = DrawEPConfig(t, "B.")
	c.ClockOff = DrawClockOff(t)
	// both ends must agree on the MTU class for the raw core: a segment cut by
	// one end has to fit the other's pool buffers, which any MTU <= 1500 does.
	return c
}

// DrawClockOff draws what the library's 32-bit millisecond clock reads when
// the run starts: 0 (a process that has just started) in two cases of three,
// otherwise minutes or weeks of uptime, anywhere, or shortly before the 2^31
// and 2^32 wrap points so that the run crosses them.
func DrawClockOff(t *rapid.T) uint32 {
	switch rapid.IntRange(0, 8).Draw(t, "clockKind") {
	case 0:
		return rapid.SampledFrom([]uint32{65_000, 70_000, 1 << 20, 1 << 24, 3_000_000_000}).Draw(t, "clockUp")
	case 1:
		return rapid.Uint32().Draw(t, "clockAny")
	case 2:
		k := uint32(rapid.SampledFrom([]int{1, 40, 400, 4000, 60_000}).Draw(t, "clockBefore"))
		if rapid.Bool().Draw(t, "clockWrap31") {
			return 0x80000000 - k
		}
		return 0 - k
	}
	return 0
}

// DrawWriteSizes draws write sizes around the interesting boundaries of mss.
func DrawWriteSizes(t *rapid.T, label string, mss, maxWrites, maxTotal, maxOne int) []int {
	n := rapid.IntRange(0, maxWrites).Draw(t, label+"nwrites")
	var out []int
	total := 0
	for i := 0; i < n && total < maxTotal; i++ {
		var sz int
		switch rapid.IntRange(0, 9).Draw(t, fmt.Sprintf("%swk%d", label, i)) {
		case 0:
			sz = 1
		case 1:
			sz = 2
		case 2:
			sz = mss - 1
		case 3:
			sz = mss
		case 4:
			sz = mss + 1
		case 5:
			k := rapid.IntRange(2, 6).Draw(t, label+"k")
			sz = k*mss + rapid.IntRange(-1, 1).Draw(t, label+"pm")
		case 6:
			sz = rapid.IntRange(1, 4*mss).Draw(t, label+"u")
		case 7:
			sz = rapid.IntRange(1, 64).Draw(t, label+"small")
		default:
			sz = rapid.IntRange(1, max(1, maxOne)).Draw(t, label+"big")
		}
		sz = max(1, min(sz, maxOne))
		out = append(out, sz)
		total += sz
	}
	return out
}

// DrawReadBufs draws a cyclic list of read-buffer sizes.
func DrawReadBufs(t *rapid.T, label string, mss int) []int {
	n := rapid.IntRange(0, 4).Draw(t, label+"nreadbufs")
	var out []int
	for i := 0; i < n; i++ {
		out = append(out, rapid.SampledFrom([]int{1, 2, 7, max(1, mss-1), mss, 4096, 65536}).Draw(t, fmt.Sprintf("%srb%d", label, i)))
	}
	return out
}
