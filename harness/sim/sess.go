package sim

import (
	"container/heap"
	"fmt"
	"io"
	"net"
	"runtime"
	"strings"
	"sync"
	"testing/synctest"
	"time"

	kcp "github.com/xtaci/kcp-go/v5"
)

// NewBlockCrypt builds the library's cipher for a wire.CipherNames entry.
func NewBlockCrypt(name string, key []byte) (kcp.BlockCrypt, error) {
	switch name {
	case "null":
		return nil, nil
	case "aes-128", "aes-192", "aes-256":
		return kcp.NewAESBlockCrypt(key)
	case "sm4":
		return kcp.NewSM4BlockCrypt(key)
	case "twofish":
		return kcp.NewTwofishBlockCrypt(key)
	case "3des":
		return kcp.NewTripleDESBlockCrypt(key)
	case "cast5":
		return kcp.NewCast5BlockCrypt(key)
	case "blowfish":
		return kcp.NewBlowfishBlockCrypt(key)
	case "tea":
		return kcp.NewTEABlockCrypt(key)
	case "xtea":
		return kcp.NewXTEABlockCrypt(key)
	case "salsa20":
		return kcp.NewSalsa20BlockCrypt(key)
	case "xor":
		return kcp.NewSimpleXORBlockCrypt(key)
	case "none":
		return kcp.NewNoneBlockCrypt(key)
	case "aes-128-gcm", "aes-256-gcm":
		return kcp.NewAESGCMCrypt(key)
	}
	return nil, fmt.Errorf("unknown cipher %q", name)
}

// seededEntropy is a deterministic io.Reader for kcp.SetEntropy.
type seededEntropy struct {
	mu sync.Mutex
	x  uint64
}

func (e *seededEntropy) Read(p []byte) (int, error) {
	e.mu.Lock()
	defer e.mu.Unlock()
	for i := range p {
		e.x += 0x9e3779b97f4a7c15
		p[i] = byte(mix64(e.x) >> 24)
	}
	return len(p), nil
}

// NewSeededEntropy returns a deterministic entropy source.
func NewSeededEntropy(seed uint64) io.Reader { return &seededEntropy{x: seed} }

type sessEvent struct {
	at   int64 // ms since start
	seq  int64
	kind int // 0 delivery, 1 scheduler task, 2 wake-up
	to   string
	from net.Addr
	data []byte
	f    func()
}

type sessEventHeap []sessEvent

func (h sessEventHeap) Len() int { return len(h) }
func (h sessEventHeap) Less(i, j int) bool {
	if h[i].at != h[j].at {
		return h[i].at < h[j].at
	}
	return h[i].seq < h[j].seq
}
func (h sessEventHeap) Swap(i, j int) { h[i], h[j] = h[j], h[i] }
func (h *sessEventHeap) Push(x any)   { *h = append(*h, x.(sessEvent)) }
func (h *sessEventHeap) Pop() any {
	o := *h
	n := len(o)
	x := o[n-1]
	o[n-1] = sessEvent{}
	*h = o[:n-1]
	return x
}

// Link is the fate source of one directed path.
type Link struct {
	Script *FateScript
	Dir    int
	idx    int
}

// Call is one application call running on its own goroutine.
type Call struct {
	Name     string
	mu       sync.Mutex
	done     bool
	N        int
	Err      error
	Val      any
	Issued   int64
	Returned int64
	Tag      any
}

// Done reports whether the call has returned.
func (c *Call) Done() bool {
	c.mu.Lock()
	defer c.mu.Unlock()
	return c.done
}

// SessSim is the lock-step discrete-event loop around real sessions.
type SessSim struct {
	Net   *Net
	Start time.Time
	Sched *kcp.TimedSched

	// Links maps "from>to" to the link's fate source; links without an entry
	// are fair with DefaultDelay.
	Links        map[string]*Link
	DefaultDelay int32

	// OnSent observes every datagram handed to a PacketConn, with the fate the
	// network is about to apply; it may replace the fate.
	OnSent func(d *Sent, from, to string, f *Fate) error
	// OnDeliver observes a datagram just before it is put into the receiver's inbox.
	OnDeliver func(to string, from net.Addr, data []byte)

	// AfterEvent runs after every executed event once the bubble is quiescent
	// again (only inside SleepTo / Drain).
	AfterEvent func()

	Datagrams, Dropped, Duplicated, Delivered int
	TasksRun                                  int
	Events                                    int

	events sessEventHeap
	seq    int64
	err    error
	calls  []*Call
}

// NewSessSim prepares the library for a simulated run: detached scheduler,
// clock offset, seeded entropy (seed 0 keeps the library's own source). Must
// be called inside the bubble.
func NewSessSim(clockOff uint32, entropySeed uint64) *SessSim {
	s := &SessSim{Net: NewNet(), Start: time.Now(), Links: map[string]*Link{}}
	s.Sched = kcp.VerifNewDetachedSched()
	kcp.SystemTimedSched = s.Sched
	kcp.VerifSetClock(clockOff)
	if entropySeed != 0 {
		kcp.SetEntropy(NewSeededEntropy(entropySeed))
	} else {
		kcp.SetEntropy(kcp.NewEntropy())
	}
	return s
}

// Now is the virtual time in ms since the start of the run.
func (s *SessSim) Now() int64 { return int64(time.Since(s.Start) / time.Millisecond) }

// Fail records the first failure.
func (s *SessSim) Fail(format string, a ...any) {
	if s.err == nil {
		s.err = fmt.Errorf("t=%dms: %s", s.Now(), fmt.Sprintf(format, a...))
	}
}

// Err returns the first recorded failure.
func (s *SessSim) Err() error { return s.err }

// SetLink installs a fate script for the directed path from -> to.
func (s *SessSim) SetLink(from, to string, fs *FateScript, dir int) {
	s.Links[from+">"+to] = &Link{Script: fs, Dir: dir}
}

// ScriptsDone reports whether every installed link has used up the scripted
// part of its fate script (from then on the link is fair).
func (s *SessSim) ScriptsDone() bool {
	for _, l := range s.Links {
		if l.idx < l.Script.Len(l.Dir) {
			return false
		}
	}
	return true
}

// Go runs f on a new goroutine inside the bubble and returns its handle.
func (s *SessSim) Go(name string, f func() (int, error, any)) *Call {
	c := &Call{Name: name, Issued: s.Now()}
	go func() {
		n, err, v := f()
		c.mu.Lock()
		c.N, c.Err, c.Val, c.done = n, err, v, true
		c.Returned = int64(time.Since(s.Start) / time.Millisecond)
		c.mu.Unlock()
	}()
	s.calls = append(s.calls, c)
	return c
}

// WakeAt makes sure the loop stops at virtual time at (ms).
func (s *SessSim) WakeAt(at int64) {
	s.seq++
	heap.Push(&s.events, sessEvent{at: max(at, s.Now()), seq: s.seq, kind: 2})
}

// Inject schedules a datagram for delivery to `to` as if sent from `from`.
func (s *SessSim) Inject(to string, from net.Addr, data []byte, delay int64) {
	s.seq++
	heap.Push(&s.events, sessEvent{at: s.Now() + delay, seq: s.seq, kind: 0, to: to, from: from, data: append([]byte(nil), data...)})
}

// Quiesce waits until every goroutine of the bubble is durably blocked, then
// absorbs newly submitted scheduler tasks and newly written datagrams.
func (s *SessSim) Quiesce() {
	for round := 0; round < 4; round++ {
		synctest.Wait()
		tasks := s.Sched.VerifTake()
		sent := s.Net.TakeSent()
		if len(tasks) == 0 && len(sent) == 0 {
			return
		}
		for _, t := range tasks {
			s.seq++
			at := int64(t.At.Sub(s.Start) / time.Millisecond)
			if t.At.Sub(s.Start)%time.Millisecond != 0 {
				at++
			}
			heap.Push(&s.events, sessEvent{at: max(at, s.Now()), seq: s.seq, kind: 1, f: t.F})
		}
		for i := range sent {
			d := &sent[i]
			s.Datagrams++
			from, to := d.From.addr.String(), d.To.String()
			fate := Fate{Copies: 1, Delay: [3]int32{s.DefaultDelay}}
			if l := s.Links[from+">"+to]; l != nil {
				fate = l.Script.FateFor(l.Dir, l.idx, s.Now())
				l.idx++
			}
			if s.OnSent != nil && s.err == nil {
				if err := s.OnSent(d, from, to, &fate); err != nil {
					s.Fail("datagram %s -> %s (%d bytes): %v", from, to, len(d.Data), err)
				}
			}
			if fate.Copies == 0 {
				s.Dropped++
				continue
			}
			if fate.Copies > 1 {
				s.Duplicated++
			}
			for c := 0; c < fate.Copies; c++ {
				s.seq++
				heap.Push(&s.events, sessEvent{at: s.Now() + int64(fate.Delay[c]), seq: s.seq, kind: 0, to: to, from: d.From.addr, data: d.Data})
			}
		}
	}
}

// NextAt returns the time of the next event, or -1.
func (s *SessSim) NextAt() int64 {
	if len(s.events) == 0 {
		return -1
	}
	return s.events[0].at
}

// Step advances virtual time to the next event (if it is due by horizon) and
// executes exactly one event. It returns false when nothing is due.
func (s *SessSim) Step(horizon int64) bool {
	if len(s.events) == 0 || s.events[0].at > horizon {
		return false
	}
	ev := heap.Pop(&s.events).(sessEvent)
	if now := s.Now(); ev.at > now {
		time.Sleep(time.Duration(ev.at-now) * time.Millisecond)
	}
	s.Events++
	switch ev.kind {
	case 0:
		if s.OnDeliver != nil {
			s.OnDeliver(ev.to, ev.from, ev.data)
		}
		if s.Net.Deliver(ev.to, ev.from, ev.data) {
			s.Delivered++
		}
	case 1:
		s.TasksRun++
		ev.f()
	}
	return true
}

// SleepTo advances virtual time to at without executing events that are due
// later; events due earlier are executed in order.
func (s *SessSim) SleepTo(at int64) {
	for {
		s.Quiesce()
		if len(s.events) > 0 && s.events[0].at <= at {
			s.Step(at)
			if s.AfterEvent != nil {
				s.Quiesce()
				s.AfterEvent()
			}
			continue
		}
		break
	}
	if now := s.Now(); at > now {
		time.Sleep(time.Duration(at-now) * time.Millisecond)
	}
	s.Quiesce()
}

// PendingTasks is the number of scheduler callbacks waiting in the loop.
func (s *SessSim) PendingTasks() int {
	n := 0
	for _, e := range s.events {
		if e.kind == 1 {
			n++
		}
	}
	return n
}

// Drain runs events (scheduler callbacks of closed sessions stop re-arming
// themselves) for up to ms more of virtual time or until nothing is left.
func (s *SessSim) Drain(ms int64) {
	end := s.Now() + ms
	for {
		s.Quiesce()
		if !s.Step(end) {
			break
		}
	}
	s.Quiesce()
}

// BlockedCalls lists the calls that have not returned.
func (s *SessSim) BlockedCalls() []*Call {
	var out []*Call
	for _, c := range s.calls {
		if !c.Done() {
			out = append(out, c)
		}
	}
	return out
}

// DumpGoroutines prints all goroutine stacks when VERIF_TRACE is set (used to
// find what a leaking case left behind).
func DumpGoroutines(tag string) {
	if !traceOn {
		return
	}
	buf := make([]byte, 1<<20)
	n := runtime.Stack(buf, true)
	fmt.Printf("==== goroutines at %s\n%s\n", tag, buf[:n])
}

// BubbleGoroutines returns the header and top frames of every goroutine that
// belongs to a synctest bubble, except the calling one.
func BubbleGoroutines() []string {
	buf := make([]byte, 4<<20)
	n := runtime.Stack(buf, true)
	var out []string
	first := true
	for _, g := range strings.Split(string(buf[:n]), "\n\n") {
		if first { // the calling goroutine comes first
			first = false
			continue
		}
		lines := strings.Split(g, "\n")
		if len(lines) == 0 || !strings.Contains(lines[0], "synctest bubble") {
			continue
		}
		if strings.Contains(g, "internal/synctest.Run") || strings.Contains(g, "synctest.testingSynctestTest") {
			continue // the bubble's own bookkeeping goroutines
		}
		desc := lines[0]
		for i := 1; i < len(lines) && i < 8; i += 2 {
			desc += " | " + strings.TrimSpace(lines[i])
		}
		out = append(out, desc)
	}
	return out
}
