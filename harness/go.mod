module verif/harness

go 1.26.8

require (
	github.com/klauspost/reedsolomon v1.12.0
	github.com/tjfoc/gmsm v1.4.1
	github.com/xtaci/kcp-go/v5 v5.0.0
	golang.org/x/crypto v0.45.0
	pgregory.net/rapid v1.3.0
)

require (
	github.com/klauspost/cpuid/v2 v2.2.6 // indirect
	github.com/pkg/errors v0.9.1 // indirect
	golang.org/x/net v0.47.0 // indirect
	golang.org/x/sys v0.38.0 // indirect
	golang.org/x/time v0.14.0 // indirect
)

replace github.com/xtaci/kcp-go/v5 => /repo
