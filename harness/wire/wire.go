// Package wire is an independent reader and writer of the kcp-go datagram
// format, written from README.md and wireshark/kcp_dissector.lua. It does not
// call into kcp-go: CFB comes from crypto/cipher, CRC32 from hash/crc32,
// Reed-Solomon parity is recomputed with its own call to klauspost/reedsolomon.
package wire

import (
	"crypto/aes"
	"crypto/cipher"
	"crypto/des"
	"crypto/sha1"
	"encoding/binary"
	"errors"
	"fmt"
	"hash/crc32"
	"sync"

	"github.com/tjfoc/gmsm/sm4"
	"golang.org/x/crypto/blowfish"
	"golang.org/x/crypto/cast5"
	"golang.org/x/crypto/pbkdf2"
	"golang.org/x/crypto/salsa20"
	"golang.org/x/crypto/tea"
	"golang.org/x/crypto/twofish"
	"golang.org/x/crypto/xtea"
)

// Documented constants (README "Specification", kcp_dissector.lua).
const (
	CmdPush = 81
	CmdAck  = 82
	CmdWask = 83
	CmdWins = 84

	SegHeader = 24

	TypeData   = 0xF1
	TypeParity = 0xF2
	TypeOOB    = 0xF3

	NonceSize = 16
	CRCSize   = 4
	FECHeader = 6 // seqid(4) + type(2)
	OOBSeqID  = 0xFFFFFFFF
)

// IV is the fixed CFB initial vector stated in crypt.go's source comment /
// shared with every other KCP implementation (copied, not imported).
var IV = []byte{167, 115, 79, 156, 18, 172, 27, 1, 164, 21, 242, 193, 252, 120, 230, 107}

// XORSalt is the documented salt of the "xor" cipher's pbkdf2 table.
const XORSalt = "sH3CIVoF#rWLtJo6"

// Segment is one KCP segment.
type Segment struct {
	Conv uint32
	Cmd  uint8
	Frg  uint8
	Wnd  uint16
	Ts   uint32
	Sn   uint32
	Una  uint32
	Data []byte
}

// Append encodes s at the end of b.
func (s Segment) Append(b []byte) []byte {
	var h [SegHeader]byte
	binary.LittleEndian.PutUint32(h[0:], s.Conv)
	h[4] = s.Cmd
	h[5] = s.Frg
	binary.LittleEndian.PutUint16(h[6:], s.Wnd)
	binary.LittleEndian.PutUint32(h[8:], s.Ts)
	binary.LittleEndian.PutUint32(h[12:], s.Sn)
	binary.LittleEndian.PutUint32(h[16:], s.Una)
	binary.LittleEndian.PutUint32(h[20:], uint32(len(s.Data)))
	b = append(b, h[:]...)
	return append(b, s.Data...)
}

// ParseSegments decodes a datagram payload that must consist of one or more
// complete segments and nothing else.
func ParseSegments(b []byte) ([]Segment, error) {
	var out []Segment
	if len(b) == 0 {
		return nil, errors.New("empty KCP payload")
	}
	for len(b) > 0 {
		if len(b) < SegHeader {
			return out, fmt.Errorf("%d trailing bytes, less than a segment header", len(b))
		}
		var s Segment
		s.Conv = binary.LittleEndian.Uint32(b[0:])
		s.Cmd = b[4]
		s.Frg = b[5]
		s.Wnd = binary.LittleEndian.Uint16(b[6:])
		s.Ts = binary.LittleEndian.Uint32(b[8:])
		s.Sn = binary.LittleEndian.Uint32(b[12:])
		s.Una = binary.LittleEndian.Uint32(b[16:])
		n := binary.LittleEndian.Uint32(b[20:])
		b = b[SegHeader:]
		if s.Cmd < CmdPush || s.Cmd > CmdWins {
			return out, fmt.Errorf("segment with unknown cmd %d", s.Cmd)
		}
		if uint64(n) > uint64(len(b)) {
			return out, fmt.Errorf("segment len field %d exceeds the %d bytes that follow", n, len(b))
		}
		if s.Cmd != CmdPush && n != 0 {
			return out, fmt.Errorf("cmd %d carries %d data bytes", s.Cmd, n)
		}
		s.Data = b[:n:n]
		b = b[n:]
		out = append(out, s)
	}
	return out, nil
}

// ---------------------------------------------------------------- ciphers

// Cipher names understood by NewCrypto (and by the harness when it builds the
// library's BlockCrypt for the same name).
var CipherNames = []string{"null", "aes-128", "aes-192", "aes-256", "sm4", "twofish", "3des", "cast5", "blowfish", "tea", "xtea", "salsa20", "xor", "none", "aes-128-gcm", "aes-256-gcm"}

// KeyLen is the key length the harness uses for a cipher name.
func KeyLen(name string) int {
	switch name {
	case "aes-128", "sm4", "cast5", "tea", "xtea", "aes-128-gcm":
		return 16
	case "aes-192", "3des":
		return 24
	case "null":
		return 0
	default:
		return 32
	}
}

// Crypto is the independent packet cipher: it turns a sealed datagram into the
// bytes behind nonce+CRC (or nonce+tag) and back.
type Crypto struct {
	mu    sync.Mutex // some block ciphers (gmsm SM4) are not safe for concurrent use; the reference is serial
	Name  string
	block cipher.Block
	aead  cipher.AEAD
	salsa *[32]byte
	xor   []byte
}

// NewCrypto builds the independent cipher for name.
func NewCrypto(name string, key []byte) (*Crypto, error) {
	c := &Crypto{Name: name}
	var err error
	switch name {
	case "null", "none":
	case "aes-128", "aes-192", "aes-256":
		c.block, err = aes.NewCipher(key)
	case "sm4":
		c.block, err = sm4.NewCipher(key)
	case "twofish":
		c.block, err = twofish.NewCipher(key)
	case "3des":
		c.block, err = des.NewTripleDESCipher(key)
	case "cast5":
		c.block, err = cast5.NewCipher(key)
	case "blowfish":
		c.block, err = blowfish.NewCipher(key)
	case "tea":
		c.block, err = tea.NewCipherWithRounds(key, 16)
	case "xtea":
		c.block, err = xtea.NewCipher(key)
	case "salsa20":
		c.salsa = new([32]byte)
		copy(c.salsa[:], key)
	case "xor":
		c.xor = pbkdf2.Key(key, []byte(XORSalt), 32, 1500, sha1.New)
	case "aes-128-gcm", "aes-256-gcm":
		var b cipher.Block
		if b, err = aes.NewCipher(key); err == nil {
			c.aead, err = cipher.NewGCM(b)
		}
	default:
		err = fmt.Errorf("unknown cipher %q", name)
	}
	return c, err
}

// IsAEAD reports whether the cipher authenticates with a tag instead of CRC32.
func (c *Crypto) IsAEAD() bool { return c.aead != nil }

// IsNull reports the no-cipher configuration (no nonce, no CRC).
func (c *Crypto) IsNull() bool { return c.Name == "null" }

// HeaderSize is the number of bytes in front of the FEC/KCP payload.
func (c *Crypto) HeaderSize() int {
	switch {
	case c.IsNull():
		return 0
	case c.aead != nil:
		return c.aead.NonceSize()
	default:
		return NonceSize + CRCSize
	}
}

// TagSize is the AEAD tag length (0 otherwise).
func (c *Crypto) TagSize() int {
	if c.aead != nil {
		return c.aead.Overhead()
	}
	return 0
}

// Stream applies the textbook whole-buffer transformation (CFB with the fixed
// IV for block ciphers) in the given direction.
func (c *Crypto) Stream(dst, src []byte, decrypt bool) {
	c.mu.Lock()
	defer c.mu.Unlock()
	switch {
	case c.block != nil:
		iv := IV[:c.block.BlockSize()]
		if decrypt {
			cipher.NewCFBDecrypter(c.block, iv).XORKeyStream(dst, src)
		} else {
			cipher.NewCFBEncrypter(c.block, iv).XORKeyStream(dst, src)
		}
	case c.salsa != nil:
		if len(src) < 8 {
			copy(dst, src)
			return
		}
		copy(dst[:8], src[:8])
		salsa20.XORKeyStream(dst[8:], src[8:], src[:8], c.salsa)
	case c.xor != nil:
		for i := range src {
			if i < len(c.xor) {
				dst[i] = src[i] ^ c.xor[i]
			} else {
				dst[i] = src[i] // the table covers one packet buffer; nothing longer is ever a valid packet
			}
		}
	default:
		copy(dst, src)
	}
}

// ErrIntegrity means CRC or tag did not verify.
var ErrIntegrity = errors.New("integrity check failed")

// ErrShort means the datagram cannot even carry nonce and CRC/tag.
var ErrShort = errors.New("datagram too short")

// Open returns nonce and the payload behind the crypto header of a datagram.
func (c *Crypto) Open(d []byte) (nonce, payload []byte, err error) {
	switch {
	case c.IsNull():
		return nil, d, nil
	case c.aead != nil:
		ns := c.aead.NonceSize()
		if len(d) < ns+c.aead.Overhead() {
			return nil, nil, ErrShort
		}
		pt, err := c.aead.Open(nil, d[:ns], d[ns:], nil)
		if err != nil {
			return nil, nil, ErrIntegrity
		}
		return d[:ns], pt, nil
	default:
		if len(d) < NonceSize+CRCSize {
			return nil, nil, ErrShort
		}
		p := make([]byte, len(d))
		c.Stream(p, d, true)
		sum := binary.LittleEndian.Uint32(p[NonceSize:])
		if crc32.ChecksumIEEE(p[NonceSize+CRCSize:]) != sum {
			return p[:NonceSize], p[NonceSize+CRCSize:], ErrIntegrity
		}
		return p[:NonceSize], p[NonceSize+CRCSize:], nil
	}
}

// Seal builds a datagram around payload with the given nonce (16 bytes for
// CRC ciphers, NonceSize() for AEAD, ignored for null).
func (c *Crypto) Seal(nonce, payload []byte) []byte {
	switch {
	case c.IsNull():
		return append([]byte(nil), payload...)
	case c.aead != nil:
		out := append([]byte(nil), nonce[:c.aead.NonceSize()]...)
		return c.aead.Seal(out, out[:c.aead.NonceSize()], payload, nil)
	default:
		p := make([]byte, NonceSize+CRCSize+len(payload))
		copy(p, nonce[:NonceSize])
		copy(p[NonceSize+CRCSize:], payload)
		binary.LittleEndian.PutUint32(p[NonceSize:], crc32.ChecksumIEEE(payload))
		c.Stream(p, p, false)
		return p
	}
}

// SealRaw encrypts header+payload exactly as given (no CRC recomputation):
// plain = nonce(16) | crc(4) | payload. Used to forge a wrong stored CRC.
func (c *Crypto) SealRaw(plain []byte) []byte {
	out := make([]byte, len(plain))
	c.Stream(out, plain, false)
	return out
}

// ---------------------------------------------------------------- frames

// Frame is a decoded datagram payload (after the crypto header).
type Frame struct {
	HasFEC   bool
	SeqID    uint32
	Type     uint16
	Size     uint16 // FEC size field (payload+2) of data and OOB packets
	Segments []Segment
	OOBConv  uint32
	OOB      []byte
	Parity   []byte // parity payload (everything after the 6-byte FEC header)
	Body     []byte // for data packets: size field + KCP bytes, as covered by RS
}

// ParseFrame decodes the bytes behind the crypto header. fec tells whether the
// emitting session has FEC enabled (then every datagram carries a FEC header).
func ParseFrame(p []byte, fec bool) (Frame, error) {
	var f Frame
	if !fec {
		segs, err := ParseSegments(p)
		f.Segments = segs
		return f, err
	}
	f.HasFEC = true
	if len(p) < FECHeader {
		return f, fmt.Errorf("FEC datagram of %d bytes has no FEC header", len(p))
	}
	f.SeqID = binary.LittleEndian.Uint32(p)
	f.Type = binary.LittleEndian.Uint16(p[4:])
	rest := p[FECHeader:]
	switch f.Type {
	case TypeData:
		if len(rest) < 2 {
			return f, errors.New("FEC data packet without size field")
		}
		f.Size = binary.LittleEndian.Uint16(rest)
		if int(f.Size) != len(rest) {
			return f, fmt.Errorf("FEC size field %d but %d bytes follow the FEC header (want payload+2)", f.Size, len(rest))
		}
		f.Body = rest
		segs, err := ParseSegments(rest[2:])
		f.Segments = segs
		return f, err
	case TypeParity:
		f.Parity = rest
		return f, nil
	case TypeOOB:
		if f.SeqID != OOBSeqID {
			return f, fmt.Errorf("OOB packet with sequence id %#x, want the reserved %#x", f.SeqID, uint32(OOBSeqID))
		}
		if len(rest) < 2+4 {
			return f, errors.New("OOB packet too short for size+conv")
		}
		f.Size = binary.LittleEndian.Uint16(rest)
		if int(f.Size) != len(rest) {
			return f, fmt.Errorf("OOB size field %d but %d bytes follow", f.Size, len(rest))
		}
		f.OOBConv = binary.LittleEndian.Uint32(rest[2:])
		f.OOB = rest[6:]
		return f, nil
	default:
		return f, fmt.Errorf("FEC type %#x is none of F1/F2/F3", f.Type)
	}
}

// BuildFECData frames KCP bytes as a FEC data packet payload.
func BuildFECData(seqid uint32, kcpBytes []byte) []byte {
	p := make([]byte, FECHeader+2+len(kcpBytes))
	binary.LittleEndian.PutUint32(p, seqid)
	binary.LittleEndian.PutUint16(p[4:], TypeData)
	binary.LittleEndian.PutUint16(p[6:], uint16(len(kcpBytes)+2))
	copy(p[8:], kcpBytes)
	return p
}

// BuildFECRaw frames arbitrary bytes behind a FEC header of any type.
func BuildFECRaw(seqid uint32, typ uint16, rest []byte) []byte {
	p := make([]byte, FECHeader+len(rest))
	binary.LittleEndian.PutUint32(p, seqid)
	binary.LittleEndian.PutUint16(p[4:], typ)
	copy(p[6:], rest)
	return p
}
