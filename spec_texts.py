"""Level texts, trust notes and non-triviality rules per property (merged into SPECS by checks_spec.py)."""

E1 = ("CoreSim: two real raw KCP cores driven by one goroutine over a scripted datagram network inside a testing/synctest bubble "
      "(virtual 32-bit ms clock via the verif hook VerifSetClock)")
E2 = ("SessSim: real UDPSession/Listener over simulated PacketConns in a synctest bubble, lock-step discrete-event loop; "
      "the sessions' update callbacks are executed by the loop through a detached TimedSched (the genuine scheduler live-locks under a frozen clock), "
      "which is the main fidelity gap; the real socket batch paths (recvmmsg/sendmmsg) are not exercised")

TEXTS = {
 "C01": dict(
  level_text=("Generated search with a reference model (the log of accepted writes): every Recv/Read return of every generated run is compared "
              "byte-for-byte with a position-dependent stream, and in message mode with the chunk boundaries. Raw core in stream and message mode (E1) "
              "and real sessions for all 16 cipher settings x FEC ratios x windows x MTU x nodelay x stream/write-delay (E2), under generated "
              "drop/delay/duplicate/reorder/outage scripts in both directions; TestC01FreeRun repeats the session runs with the lock-step loop switched off (writer, reader, read loops, post-processors, scheduler runner and one goroutine per datagram run concurrently in virtual time; thorough also under -race). Holds on everything generated; not a proof."),
  level_note=E1 + ". " + E2 + ". FEC ratio equal at both ends or off (unequal is C16). Raw message mode only sends messages of <= min(255, peer rcv_wnd) fragments; raw stream writes <= 200 mss (the partially-appended refused write of a >255-segment stream Send is outside the generated domain). Plus E7 (TestC01RealUDP): real sessions over real loopback UDP sockets (recvmmsg/sendmmsg paths, owned sockets, IPv4/IPv6) with a fate-applying relay, in real time with schedule-insensitive oracles; a transfer over its 30 s budget is inconclusive.",
  rule=("Case = (configuration, fault script, application script) drawn by rapid; distinct by hash of that descriptor. Non-trivial = the run contained >=1 retransmitted sn "
        "AND >=1 of {duplicate delivered, out-of-order delivery into the receive heap, FEC-recovered packet fed to the core, read smaller than the pending message}.")),
 "C02": dict(
  level_text=("Bounded liveness in virtual time. (a) Exhaustive: every assignment of {deliver, drop, duplicate, delay past the next ones} to the first K datagrams of a run "
              "(both directions interleaved; K=6 quick / 8 thorough) for 6/12 hand-picked configurations covering both drives (flush+interval, Update/Check). "
              "(b) Sampled: long scripts with loss regimes and outages up to 10 min. After the script a fair network; all accepted bytes must be read and WaitSnd()==0 at both ends "
              "within a progress-based bound: once the faults are over the connection counts as wedged only when nothing at all (bytes read, snd_una, rcv_nxt, backlog) has moved for "
              "2*(largest RTO of an outstanding segment + 60 s) + 360 s. 'Eventually' is only ever 'within that bound'. (c) TestC02Session: the same through real sessions "
              "(scheduler-driven update, post-processor, cipher and FEC framing, listener or dialled server end, vectored writes): everything read, then both backlogs zero."),
  level_note=E1 + " and " + E2 + ". A script counted in datagrams that retransmission back-off stretches beyond 6 h of virtual time is counted as inconclusive, not as a pass.",
  rule=("Exhaustive cases are distinct by construction (fate vector x configuration); sampled cases by descriptor hash. Non-trivial = the prefix lost at least one PUSH-carrying "
        "AND at least one ACK-carrying datagram, or contained a timed outage; for the session test: a datagram was dropped and a segment retransmitted.")),
 "C03": dict(
  level_text=("Generated reader stalls (up to 10 min, anywhere incl. before the first read) x receive windows 1..64 x time windows in which EVERY datagram that carries no data "
              "(WASK, WINS, ack-only; recognised by the independent decoder) is dropped x ordinary loss. C04's invariants run after every step (bounded buffering, nothing new on the wire "
              "while the last delivered window was 0), C01's content oracle throughout, sender backlog <= snd_wnd + one write, and completion within the C02 bound + 180 s after the last fault."),
  level_note=E1 + " (TestC03Core) and " + E2 + " with two dialled sessions (TestC03Session).",
  rule="Case = config x pauses x control-drop windows x fault script. Non-trivial = the wire showed wnd=0 advertised AND >=1 WASK was sent AND >=1 control datagram was dropped by the script."),
 "C04": dict(
  level_text=("State invariants after every API call and every processed datagram (VerifState hook): delivery queue and out-of-order buffer each <= rcv_wnd, every buffered sn inside the window, "
              "delivery queue is the in-order run before rcv_nxt, snd_nxt-snd_una <= snd_wnd; every emitted segment's wnd field <= free delivery-queue slots; a new sn appears on the wire only if "
              "fewer than min(snd_wnd, window last DELIVERED to the sender (model), cwnd) were outstanding; after a timeout loss (SNMP LostSegs, nc=0) no new sn until the then-oldest segment is acknowledged. "
              "Genuine peers under C01/C03-style generators plus a generated hostile peer (sn anywhere in 32-bit space, forged una/wnd/ts, replays)."),
  level_note=E1 + ". cwnd is read through the hook at emission time; the bound is max(cwnd after the previous step, cwnd now) (+2 inside Input), exact for timer- and Send-driven flushes. "
             "Session-level Write back-pressure is checked in C13 (writers) and C03 (backlog). Known finding C04:new-sn-after-timeout-once-fast-retransmit-reopens-cwnd is excluded by construction and reproduced separately.",
  rule="Non-trivial = the case reached a full delivery queue, a full send window, or a timeout with congestion control on; hostile cases: >=1 forged PUSH outside the receive window."),
 "C05": dict(
  level_text=("Structure-aware mutation (truncate at header boundaries, extend, boundary constants into 16/32-bit fields, bit flips, splices, random bytes) of forged and captured genuine datagrams, "
              "fed amid valid traffic to: the raw core's Input (datagrams up to 64 KiB), the FEC decoder, dialled sessions and listeners - both raw at the socket and, with the key, re-sealed behind a correct "
              "nonce/CRC or AEAD tag so that the FEC/KCP logic is reached. Oracle: no panic, C04 occupancy limits, FEC shard sets <= 5 and <= 5 groups of packets, listener sessions <= source addresses, pending acks bounded by input since last flush; "
              "with a cipher and no forging the genuine stream must still arrive intact."),
  level_note=E1 + " / " + E2 + " with synchronous VerifPacketInput hooks (panic happens on the property goroutine, so rapid shrinks it). Native coverage-guided fuzzing is not part of the quick tier.",
  rule="Non-trivial = at least one hostile input passed the first validation layer of its target (conv matched / integrity gate passed / FEC type recognised)."),
 "C06": dict(
  level_text=("At generated quiescent points of generated histories a genuine captured datagram is corrupted in a way the check is GUARANTEED to catch (AEAD: flips/truncation/extension; CRC ciphers: error burst <=32 bits in the covered bytes, any change of the stored CRC, "
              "ciphertext corruption confirmed by the independent CRC; short and random datagrams) and injected synchronously. Oracle: full-state digest (core incl. queued payloads, FEC decoder sets/horizon/auto-tune ring, encoder, read carry-over) of both sessions identical, "
              "listener table and backlog identical, every SNMP counter identical except InCsumErrors+1 (nothing for too-short), no datagram emitted, no blocked call woken; C01 holds to the end."),
  level_note=E2 + ". The differential re-run without injections described in DESIGN.md is not implemented (goroutine interleaving inside one event cascade is not fully deterministic); the digest/counter/emission oracles are exact because injection is synchronous at quiescence.",
  rule="Non-trivial = at least one corruption was of a datagram still in flight (the receiver would have acted on the original)."),
 "C07": dict(
  level_text=("Reference = the encoder's inputs. Exhaustive: for every ratio with d+p <= 5 (quick) / 6 (thorough), 9 group positions (0, mid, 2^31+-, wrap-3n..wrap-n), 5 payload-size vectors, seeked and fresh decoder: EVERY subset of >= d packets in EVERY arrival order, "
              "plus every data-only order with all parity lost/skipped. Sampled: ratios up to d+p=255, duplicates, neighbouring groups interleaved within the 3-group horizon, wrap. Oracle: when the d-th distinct packet has arrived every data packet not received has been emitted, byte-equal with exact length and zero padding; nothing else is ever emitted."),
  level_note="Direct codec access through VerifNewFECEncoder/Decoder hooks (thin wrappers). The horizon demanded is 2 groups (implementation keeps 3). End-to-end FEC recovery under loss is exercised by C01/C09/C15/C19 session runs (class fec_recovery_used).",
  rule="Non-trivial = >=1 packet recovered in a case whose arrival order was not ascending, contained a duplicate, interleaved groups, or straddled the wrap. Exhaustive orders are distinct by construction."),
 "C08": dict(
  level_text=("Exhaustive grid: 13 ciphers x every length 0..1500 x {in place, out of place} x {Encrypt, Decrypt} x contents {zeros, 0xff, pseudo-random(+more in thorough)}; each point compared with an independent reference "
              "(crypto/cipher CFB with the fixed IV; salsa20.XORKeyStream; pbkdf2 xor table; identity) AND round-tripped; out-of-place must write every byte and leave the source alone. AES-GCM: every plaintext length that fits 1500 bytes, Seal shares the packet buffer, equals crypto/cipher GCM, Open in place; too-small buffer refused. "
              "8 goroutines on one BlockCrypt against the serial reference."),
  level_note="Block primitives (aes, sm4, twofish, ...) come from the same libraries in library and reference: the mode, IV, unrolling and aliasing are what is checked. Keys are per-seed pseudo-random.",
  rule="Every grid point is a distinct case; non-trivial = any point other than (length 1500, out of place) which the upstream suite samples."),
 "C09": dict(
  level_text=("An independent decoder written from README/dissector (std-lib CFB + CRC32-IEEE / GCM, own segment parser, own klauspost RS encode) reads EVERY datagram handed to the PacketConn in generated session histories: "
              "integrity verifies, layout parses with nothing left over, the byte stream reassembled from PUSH segments alone equals what was written, retransmissions carry identical payload, FEC type matches id position, ids follow +1 (or +p+1 after a skipped parity block) modulo the wrap value, OOB uses 0xffffffff and consumes none, "
              "parity equals RS over the zero-padded size-prefixed payloads, all datagrams and all nonces pairwise distinct (library entropy in half the cases, seeded in the rest)."),
  level_note=E2 + ". TestC09Entropy draws 2^18 (quick) / 2^22 (thorough) 16-byte values from each entropy source and requires them distinct.",
  rule="Non-trivial = the history contains a retransmission on the wire, a multi-segment datagram and (with FEC) a parity packet."),
 "C10": dict(
  level_text=("MTU values from the whole int range (negative, 0, 24/25, 1499..1501, 1524/1525, 65535/65536, 2^31, MaxInt) applied to a raw core before and during generated lossy traffic, growing and shrinking, with data queued and in flight. "
              "Oracle: every output callback has 0 < size <= last ACCEPTED mtu; no panic; the transfer still completes (C02 bound). TestC10Session: UDPSession.SetMtu(any int) before and during generated lossy traffic for every cipher/FEC layout; every datagram at the PacketConn (data, parity, OOB) <= the last accepted MTU (default 1400, cap 1500); values below the layout's minimum must be refused; transfer completes."),
  level_note=E1 + ". Message sizes are drawn for the smallest MTU the sender will have (KCP's documented limit: a message must fit the peer's window). Session runs use stream mode. Known finding C10:parity-of-group-straddling-mtu-shrink excluded (at most parityShards packets per shrink) and reproduced separately.",
  rule="Non-trivial = MTU changed while >=1 segment was queued or in flight, or within 2 of a boundary, or raw MTU > 1500."),
 "C11": dict(
  level_text=("1-8 clients (some sharing an IP) on one listener, each with its own fault script and an (address, conv)-keyed payload stream; reconnects from the same address with a new conv; late Accept; injected foreign datagrams: replays of genuine datagrams from a never-seen address, random bytes from strangers and (with a cipher) from known addresses, "
              "forged conv from the right address with sn != 0 (digest + table must not change), genuine server datagrams sent to a dialled client from a third address (digest must not change). Oracle: Accept returns each incarnation exactly once with the right addr/conv, every accepted session reads exactly its own peer's stream and completes. TestC11Backlog: 120-150 new peers against the 128-deep accept backlog, accepted late: table and backlog never exceed 128, every peer is accepted exactly once as room appears, each session holds its own peer's bytes."),
  level_note=E2 + ". Stale datagrams of the old conversation are let die out (500 ms) before a reconnect so that exactly-once can be asserted; the two documented restart histories (stale sn=0, server-side Close) are not generated. Plus E7 (TestC11RealUDP): real sessions over real loopback UDP sockets (recvmmsg/sendmmsg paths, owned sockets, IPv4/IPv6) with a fate-applying relay, in real time with schedule-insensitive oracles; a transfer over its 30 s budget is inconclusive.",
  rule="Non-trivial = >=3 concurrent streams interleaving at the listener AND >=1 injected foreign datagram that passed the integrity gate."),
 "C12": dict(
  level_text=("Metamorphic: each generated lossy run of two raw cores is executed unshifted and with drawn offsets (sn of each direction, clock) biased so that 2^32 and 2^31 fall inside the transfer; delivered data, statistics and the datagram traces normalised by the offsets must be identical at identical virtual times. "
              "FEC ids: every arrival order for ratios d+p<=4 gives the same recoveries at id 0 and at 8 other positions incl. the wrap (plus C07's positions)."),
  level_note=E1 + " is exactly deterministic (one goroutine). sn/ts of WASK/WINS segments are template left-overs and not compared. TestC12SessionFECWrap runs real lossy FEC sessions whose encoders start a few groups before their wrap value (decoders seeked consistently) with the clock near a wrap point, under C01's content oracle and the wire decoder; a full session-level trace-equality run is not implemented.",
  rule="Non-trivial = a boundary (2^31 or 2^32 of a sequence space or of the clock) was crossed during the transfer."),
 "C13": dict(
  level_text=("rapid state machines over a real session pair / a real listener in virtual time. Rules: start Read/Write/Accept (<=3 blocked each), peer writes (several messages per datagram), peer reads (window opens), Set{,Read,Write}Deadline with zero/past/now/future, advance time, Close (twice), socket read/write error, new peers. "
              "After every rule and every event: a call still blocked => none of its reasons to return holds (data readable, window open for longer than one flush interval without any writer being served, deadline in force reached, closed, socket error); a timeout fires never early and exactly at the deadline in force; error kinds; after Close Write fails, Read drains then fails, second Close errors."),
  level_note=E2 + ". The two defects these machines found in deadline handling (a deadline change reached only one of several blocked callers; Accept ignored a deadline set while it was blocked) were first listed as findings and later repaired by fix: commits; their reproducers now run as ordinary regression tests and the classes are generated again.",
  rule="Non-trivial = a deadline / Close / socket-error rule fired while >=1 call was blocked, or >=2 callers were blocked on the same side."),
 "C14": dict(
  level_text=("Seeded generated concurrent programs: 4-24 goroutines x 20-200 calls over the 27 supported UDPSession methods, 5 listener methods and DefaultSnmp, 2-6 sessions on one listener sharing pool/entropy/counters, all 14 cipher kinds x FEC on/off, traffic flowing, concurrent double Close at the end; real time, the genuine TimedSched, built with -race. "
              "Oracle: zero race reports. Evidence lists how many of the 351 method pairs were co-scheduled within 1 ms on one session."),
  level_note="In-memory PacketConn with immediate delivery (no real UDP). The detector only sees interleavings that occur. Deprecated SetStreamMode/SetDUP and SetEntropy are called only before traffic (the property excludes them).",
  rule="Case = one program (seed, cipher, FEC, clients, goroutines, calls); non-trivial = >=1 pair of different methods co-scheduled within 1 ms on one session during it."),
 "C15": dict(
  level_text=("Close scripts: point in a generated lossy history (idle, mid-transfer, full queues with a stalled reader, blocked callers, peers the application never accepts) x permutation of {client session, server session, listener, client socket, server socket} x gaps. "
              "After 10 virtual minutes: census of goroutines still belonging to the bubble (stacks name the leaked function), no scheduler callback pending, no application call blocked. Pool sanitizer (hook): quarantine+poison detects double recycle and write-after-recycle; LIFO reuse makes a stale owner bleed into the next packet, caught by C01's content oracle and the wire decoder. TestC15PoolAutoTune runs the FEC decoder's auto-tune path (differing ratios incl. same total / different split, with loss) under the quarantine sanitizer."),
  level_note=E2 + ". Pool sanitizer = tag-guarded call-outs in bufferpool.go; read-after-recycle is only visible when the poisoned bytes reach the wire or the reader. Plus E7 (TestC15RealUDP): real sessions over real loopback UDP sockets (recvmmsg/sendmmsg paths, owned sockets, IPv4/IPv6) with a fate-applying relay, in real time with schedule-insensitive oracles; a transfer over its 30 s budget is inconclusive.",
  rule="Close cases non-trivial = closed mid-transfer, with blocked callers, or with un-accepted sessions; pool cases = >=1000 Get calls and >=1 retransmission."),
 "C16": dict(
  level_text=("Generated (sender ratio, receiver ratio incl. the lazy 1/1 decoder, start id anywhere incl. mid-group and near the wrap) with well-formed KCP payloads of a common conv; phase 1 arbitrary loss/dup/reorder, phase 2 an uninterrupted run that must make the decoder adopt the sender's ratio within 258+2(d+p) packets, phase 3 one loss per group must be recovered and the ratio must stay. "
              "Everything decode() ever emits is compared with the encoder's inputs. Stability: equal ratios, any loss/dup/reorder of genuine packets incl. skipped parity and wrap: ratio and shouldTune never change."),
  level_note="Direct codec access via hooks. Two listed findings: non-original emissions BEFORE convergence are counted, not asserted; convergence across the receiver's own wrap value is given twice the bound. After convergence every emission is asserted.",
  rule="Convergence non-trivial = >=1 packet lost or reordered before convergence AND >=1 recovery after it; stability = >=1 duplicate AND >=1 reorder."),
 "C17": dict(
  level_text=("The genuine TimedSched in real time under GODEBUG=asynctimerchan=0 and =1: generated programs of 1-32 concurrent submitters, parallelism 1-16, deadline patterns past/now/now+eps/equal/increasing/decreasing/+1h, bursts and trickles, 20-10000 tasks. "
              "Per task: run count exactly 1, never before its deadline, run within 2 s of being due (loss detector, not a latency requirement), far-future tasks not run and not delaying nearer ones. Cases in which the harness itself was descheduled >200 ms are discarded."),
  level_note="Real clocks: interleavings are sampled by the OS scheduler. Sessions in E1/E2 do not run this code (detached scheduler), C14 does.",
  rule="Non-trivial = >=2 submitters overlapping in time with deadline order differing from submission order."),
 "C18": dict(
  level_text=("Clean path: generated constant one-way delay D and intervals with 2D + peer ack delay < minimum RTO, windows satisfying the precondition, both drives, write patterns up to 2 MB: every data sn appears on the wire exactly once and the four retransmission counters do not move. "
              "RTO bound: hostile ACK streams with forged timestamps (0, future, now-2^31+-, random) and clocks near the wrap: after every operation minrto <= rx_rto <= 60000."),
  level_note=E1 + ". minrto is the value configured before traffic. TestC18SessionRTO checks GetRTO() of dialled sessions at every read of generated lossy transfers, with the clock near its wrap points.",
  rule="Clean-path non-trivial = the send window was filled at least once and >=3 segments were sent; bound cases = >=1 sample moved rx_rto."),
 "C19": dict(
  level_text=("FEC sessions of every cipher/MTU: SendOOB with lengths {0,1,6,7,100,max-1,max,max+1,max+100}, bursts up to 3000 calls against the 2048-deep queue, handlers on both/one/neither side, replaced or cleared mid-run, interleaved with generated lossy stream traffic. "
              "Tagged payloads: every handler argument must be a payload its peer sent, delivered at most as often as the network delivered its datagram; oversize refused with nothing on the wire; GetOOBMaxSize equals the documented layout; the wire decoder checks on every datagram that OOB consumes no FEC id, parity is RS over the data packets only, size <= MTU; the stream completes (bounded liveness). Sessions without FEC refuse all three calls."),
  level_note=E2 + ". TestC19ForeignConvOOB injects, at the listener and from the owning address, a correctly sealed OOB packet that carries ANOTHER conversation id (late packet of a previous incarnation / forgery) with payload lengths 0..60: it must never reach the handler of the session that owns the address (ignoring it or starting a new conversation are both accepted).",
  rule="Non-trivial = >=1 OOB datagram emitted between two data packets of a FEC group AND >=1 OOB lost AND >=1 data packet recovered by FEC."),
 "C20": dict(
  level_text=("Every operation sequence up to a depth bound from ~210 initial layouts is executed against the real RingBuffer and "
              "compared in full with a slice model after every step (bounded-exhaustive), plus random long sequences across the "
              "growth regimes. This is search, not proof: sequences longer than the bound are only sampled."),
  level_note=("Trusts the slice model and the verif-tag hooks VerifLayout/VerifClone (plain field reads/copies). "
              "Element type int; Discard(n<0) is outside the domain."),
  rule=None),
}

# ---- additions made while the checks were being strengthened against independently written changes (DESIGN.md 9.5)
_ADD = {
 "C01": " Added later: vectored WriteBuffers calls, tuning calls in mid-connection, paced writers through outages of 4-70 s, any library clock offset (uptime, wrap points), and E7 (real loopback UDP).",
 "C02": " Added later: tuning calls in mid-connection, transient socket send errors (TestC02Session), flush intervals up to 5 s, any clock offset; a literal regression case for the repaired snd_una wedge.",
 "C03": " Added later: the receiving application enlarges its window at drawn moments, also in mid-stall; TestC03WindowShrunk lowers it (at a drawn time, or at the moment the delivery queue is full with acknowledged segments parked behind it) and requires the transfer to resume and complete with every byte in order.",
 "C04": " Added later: timeouts are recognised by the model itself (a retransmitted segment whose fast-ack counter was just set to 0), not from the library's LostSegs counter; TestC04SessionWindow applies the sender-side window rule to real sessions with FEC, loss and stalled readers (the peer's window is read from regular data packets as they arrive; FEC-recovered packets must not count as news); a literal regression case for the repaired ack-only admission.",
 "C05": " Added later: a quarter of the hostile datagrams go through the simulated socket and the library's own receive loops, up to 65 000 bytes long; a literal regression case for the repaired oversize PUSH.",
 "C06": " Added later: a third of the corrupted / short / empty datagrams go through the simulated socket and the library's own receive loops; the stored CRC is also replaced by values a shortcut might treat specially (0, all ones, the complement, the byte-swapped value), with and without a payload change.",
 "C09": " Added later: a third of the session cases transmit through the sendmmsg batch path (verif hook) with drawn short-write counts; the entropy test crosses the 2^24-draw re-seeding.",
 "C10": " Added later: the listed parity finding is excluded by the id of the straddling FEC group only; every parity packet must be exactly as long as the longest data packet of its group; idle gaps beyond the encoder's 500 ms limit with MTU calls placed inside them; OOB packets at and beyond the size limit; readers stalled at both ends (probe and announcement in one flush); a literal regression case for the repaired raw SetMtu.",
 "C11": " Added later: conversation ids from the whole 32-bit space (0 and 0xffffffff favoured, reconnect to id 0), any clock offset, an immediate oracle (once the listener has been handed the first data packet of a peer's conversation its table holds that conversation for that address), and E7 (datagrams from a third real socket); TestC11Restart: both applications close, then the same address starts again (same or new conversation id, 0..2 other peers in between, 2..4 incarnations): exactly one Accept and the new stream delivered each time.",
 "C13": " Added later: in a third of the session cases X is a session handed out by a listener, which may be closed while the session goes on; literal regression cases for the two repaired wake-up defects.",
 "C14": " Added later: transport faults during the calls and during Close, a third of the programs over real loopback UDP sockets, Close while other goroutines call methods of the same session, all listener methods, programs that start just before the entropy source re-seeds.",
 "C15": " Added later: E7 (real sockets owned by the library: descriptors and goroutines back to the baseline after Close in four orders, also in mid-transfer and under a storm of first packets from new peers), OOB calls on closed sessions under the pool sanitizer, a literal regression case for sessions nobody accepted, and a real-time test that feeds a listener first datagrams from 1 to 168 peers (around its accept backlog of 128) through a hand-fed transport, accepts a few, closes everything and requires Close to return, the reader to end and every goroutine to be gone.",
 "C16": " Added later: TestC16SessionLazyDecoder - FEC at the sender only, through real sessions: the receiving session must keep its lazily created decoder, adopt the ratio within the bound and recover losses afterwards.",
 "C17": " Added later: tasks that submit tasks; 'never' deadlines a century away, past the year 2262 and at the largest time value.",
 "C18": " Added later: clock offsets at the wrap points in half of the clean-path runs; NoDelay called again in mid-connection (the floor in force is that of the last call from the next RTT sample on).",
 "C19": " Added later: TestC19ClosedSession (OOB calls on closed sessions under the pool sanitizer), TestC19OneSidedFEC (FEC at one end only: the other end keeps refusing the OOB calls for the whole connection), TestC19ForeignConvOOB with any conversation id; TestC19OOB also feeds the receiver correctly sealed OOB-typed frames of 0..11 bytes from its peer's address (shorter than any OOB packet: dropped, no handler call, no crash).",
 "C20": " Added later: TestC20GrowEveryOffset - a full ring is grown twice from EVERY head offset at 32 sizes across the three growth regimes (37 544 layouts), compared in full with the model after each growth and drained.",
}
for _k, _v in _ADD.items():
    if _k in TEXTS and TEXTS[_k].get("level_text"):
        TEXTS[_k]["level_text"] = TEXTS[_k]["level_text"] + _v
